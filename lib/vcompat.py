"""scratch compat shim (exploration)"""
import sys, types, warnings, functools
warnings.filterwarnings("ignore")
import numpy as np, pandas as pd

for a, b in [("float", float), ("int", int), ("bool", bool), ("object", object), ("str", str), ("complex", complex)]:
    if a not in np.__dict__:
        setattr(np, a, b)

if not hasattr(pd, "Int64Index"):
    pd.Int64Index = pd.Index
if not hasattr(pd.Index, "is_monotonic"):
    pd.Index.is_monotonic = property(lambda self: self.is_monotonic_increasing)
if not hasattr(pd.Series, "is_monotonic"):
    pd.Series.is_monotonic = property(lambda self: self.is_monotonic_increasing)
if not hasattr(pd.DataFrame, "append"):
    def _df_append(self, other, ignore_index=False, verify_integrity=False, sort=False):
        if isinstance(other, (dict,)):
            other = pd.DataFrame([other])
        elif isinstance(other, pd.Series):
            other = other.to_frame().T
        elif isinstance(other, list):
            if other and not isinstance(other[0], pd.DataFrame):
                other = pd.DataFrame(other)
                return pd.concat([self, other], ignore_index=ignore_index, verify_integrity=verify_integrity, sort=sort)
            return pd.concat([self] + list(other), ignore_index=ignore_index, verify_integrity=verify_integrity, sort=sort)
        return pd.concat([self, other], ignore_index=ignore_index, verify_integrity=verify_integrity, sort=sort)
    pd.DataFrame.append = _df_append
if not hasattr(pd.Series, "append"):
    def _s_append(self, to_append, ignore_index=False, verify_integrity=False):
        if isinstance(to_append, (list, tuple)):
            objs = [self] + list(to_append)
        else:
            objs = [self, to_append]
        return pd.concat(objs, ignore_index=ignore_index, verify_integrity=verify_integrity)
    pd.Series.append = _s_append
if not hasattr(pd.DataFrame, "iteritems"):
    pd.DataFrame.iteritems = pd.DataFrame.items
if not hasattr(pd.Series, "iteritems"):
    pd.Series.iteritems = pd.Series.items

_orig_read_csv = pd.read_csv
@functools.wraps(_orig_read_csv)
def _read_csv(*a, squeeze=False, **k):
    out = _orig_read_csv(*a, **k)
    if squeeze and isinstance(out, pd.DataFrame) and out.shape[1] == 1:
        out = out.iloc[:, 0]
    return out
pd.read_csv = _read_csv

# sklearn
import sklearn.base as _sb
if not hasattr(_sb, "_pprint"):
    def _pprint(params, offset=0, printer=repr):
        options = np.get_printoptions()
        np.set_printoptions(precision=5, threshold=64, edgeitems=2)
        params_list = list()
        this_line_length = offset
        line_sep = ",\n" + (1 + offset // 2) * " "
        for i, (k, v) in enumerate(sorted(params.items())):
            if type(v) is float:
                this_repr = "%s=%s" % (k, str(v))
            else:
                this_repr = "%s=%s" % (k, printer(v))
            if len(this_repr) > 500:
                this_repr = this_repr[:300] + "..." + this_repr[-100:]
            if i > 0:
                if this_line_length + len(this_repr) >= 75 or "\n" in this_repr:
                    params_list.append(line_sep)
                    this_line_length = len(line_sep)
                else:
                    params_list.append(", ")
                    this_line_length += 2
            params_list.append(this_repr)
            this_line_length += len(this_repr)
        np.set_printoptions(**options)
        lines = "".join(params_list)
        lines = "\n".join(l.rstrip(" ") for l in lines.split("\n"))
        return lines
    _sb._pprint = _pprint

import sklearn.utils.metaestimators as _me
if not hasattr(_me, "if_delegate_has_method"):
    from sklearn.utils.metaestimators import available_if
    def if_delegate_has_method(delegate):
        if isinstance(delegate, list):
            delegate = tuple(delegate)
        if not isinstance(delegate, tuple):
            delegate = (delegate,)
        def deco(fn):
            name = fn.__name__
            def check(self):
                for d in delegate:
                    if hasattr(self, d):
                        getattr(getattr(self, d), name)  # raises AttributeError if missing
                        return True
                return False
            return available_if(check)(fn)
        return deco
    _me.if_delegate_has_method = if_delegate_has_method

import sklearn.neighbors._base as _nb
if not hasattr(_nb, "_check_weights"):
    def _check_weights(weights):
        if weights not in (None, "uniform", "distance") and not callable(weights):
            raise ValueError("weights not recognized: should be 'uniform', 'distance', or a callable function")
        return weights
    _nb._check_weights = _check_weights

# scipy
import scipy.stats
if "scipy.stats.morestats" not in sys.modules:
    try:
        import scipy.stats.morestats  # noqa
    except Exception:
        pass
try:
    from scipy.stats.morestats import _boxcox_conf_interval  # noqa
except Exception:
    from scipy.stats import _morestats
    m = types.ModuleType("scipy.stats.morestats")
    m.__dict__.update({k: v for k, v in _morestats.__dict__.items() if not k.startswith("__")})
    sys.modules["scipy.stats.morestats"] = m
    scipy.stats.morestats = m

# numba
try:
    import numba  # noqa
except Exception:
    nb = types.ModuleType("numba")
    def _jit(*a, **k):
        if len(a) == 1 and callable(a[0]) and not k:
            return a[0]
        return lambda f: f
    nb.njit = nb.jit = nb.vectorize = nb.guvectorize = _jit
    nb.prange = range
    class _T:
        def __getattr__(self, n): return _T()
        def __call__(self, *a, **k): return _T()
        def __getitem__(self, i): return _T()
    nb.types = _T(); nb.int32 = nb.int64 = nb.float32 = nb.float64 = nb.boolean = nb.uint32 = _T()
    typed = types.ModuleType("numba.typed")
    class Dict(dict):
        @classmethod
        def empty(cls, key_type=None, value_type=None): return cls()
    class List(list):
        @classmethod
        def empty_list(cls, t=None): return cls()
    typed.Dict = Dict; typed.List = List
    nb.typed = typed
    core = types.ModuleType("numba.core"); core.types = nb.types
    nb.core = core
    sys.modules["numba"] = nb; sys.modules["numba.typed"] = typed; sys.modules["numba.core"] = core

import sklearn.model_selection._search as _ss
if not hasattr(_ss, "_check_param_grid"):
    from collections.abc import Sequence
    def _check_param_grid(param_grid):
        if hasattr(param_grid, "items"):
            param_grid = [param_grid]
        for p in param_grid:
            for name, v in p.items():
                if isinstance(v, np.ndarray) and v.ndim > 1:
                    raise ValueError("Parameter array should be one-dimensional.")
                if isinstance(v, str) or not isinstance(v, (np.ndarray, Sequence)):
                    raise ValueError(
                        "Parameter grid for parameter ({0}) needs to"
                        " be a list or numpy array, but got ({1}).".format(name, type(v)))
                if len(v) == 0:
                    raise ValueError("Parameter values for parameter ({0}) need to be a non-empty sequence.".format(name))
    _ss._check_param_grid = _check_param_grid

# pandas >= 2 rejects non-list-like (no __iter__) objects as index data; pandas 1.x used the
# sequence protocol.  ForecastingHorizon only has __len__/__getitem__.
_orig_index_new = pd.Index.__new__
def _index_new(cls, data=None, *a, **k):
    if data is not None and not hasattr(data, "__iter__") and hasattr(data, "to_pandas") and hasattr(data, "__len__"):
        data = data.to_pandas()
    return _orig_index_new(cls, data, *a, **k)
pd.Index.__new__ = _index_new

# sklearn private/changed metric APIs
import inspect as _inspect
import sklearn.metrics._regression as _reg
import sklearn.metrics as _skm
if "sample_weight" in _inspect.signature(_reg._check_reg_targets).parameters:
    _orig_crt = _reg._check_reg_targets
    def _check_reg_targets(*args, **kwargs):
        # old call style: (y_true, y_pred, multioutput[, dtype]) -> 4-tuple; anything else is passed through
        if len(args) == 3 and set(kwargs) <= {"dtype"}:
            y_true, y_pred, multioutput = args
            y_type, y_true, y_pred, _sw, multioutput = _orig_crt(y_true, y_pred, None, multioutput, **kwargs)
            return y_type, y_true, y_pred, multioutput
        return _orig_crt(*args, **kwargs)
    _reg._check_reg_targets = _check_reg_targets
if "squared" not in _inspect.signature(_skm.mean_squared_error).parameters:
    _orig_mse = _skm.mean_squared_error
    def mean_squared_error(y_true, y_pred, *, sample_weight=None, multioutput="uniform_average", squared=True):
        if squared:
            return _orig_mse(y_true, y_pred, sample_weight=sample_weight, multioutput=multioutput)
        # old sklearn: sqrt of per-output MSE, then aggregated
        raw = _orig_mse(y_true, y_pred, sample_weight=sample_weight, multioutput="raw_values")
        raw = np.sqrt(raw)
        if isinstance(multioutput, str):
            if multioutput == "raw_values":
                return raw
            if multioutput == "uniform_average":
                return np.average(raw)
        return np.average(raw, weights=multioutput)
    _skm.mean_squared_error = mean_squared_error

# sklearn forests: `base_estimator` kwarg/attribute was renamed to `estimator`
import sklearn.ensemble._forest as _forest
import sklearn.ensemble._base as _ebase
if "base_estimator" not in _inspect.signature(_ebase.BaseEnsemble.__init__).parameters:
    _orig_be_init = _ebase.BaseEnsemble.__init__
    def _be_init(self, estimator=None, *, n_estimators=10, estimator_params=tuple(), base_estimator=None):
        if base_estimator is not None and estimator is None:
            estimator = base_estimator
        _orig_be_init(self, estimator=estimator, n_estimators=n_estimators, estimator_params=estimator_params)
        self.base_estimator = estimator
    _ebase.BaseEnsemble.__init__ = _be_init
    for _cls in (_forest.BaseForest, _forest.ForestClassifier, _forest.ForestRegressor):
        _o = _cls.__init__
        def _mk(_o):
            def _init(self, estimator=None, n_estimators=100, *, base_estimator=None, **kw):
                if base_estimator is not None and estimator is None:
                    estimator = base_estimator
                _o(self, estimator, n_estimators, **kw)
                self.base_estimator = estimator
            return _init
        _cls.__init__ = _mk(_o)
