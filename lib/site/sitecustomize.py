# Loaded by every interpreter started with /verif/lib/site on PYTHONPATH (check process,
# shard workers, joblib/loky workers).  Installs the third-party compatibility layer
# before sktime can be imported.  Off unless SKTIME_VERIF_SHIM=1.
import os
if os.environ.get("SKTIME_VERIF_SHIM") == "1":
    import vcompat  # noqa: F401
