"""Fixed table of exception signatures attributed to the sandbox's third-party versions
(pandas 2 / numpy 2 / scikit-learn 1.7 / statsmodels 0.15) rather than to the repository.
A case that ends in one of these is counted `env_skipped`: neither held nor violated.
The table is never extended at run time."""
import re

# (name, exception type name, message regex)
TABLE = [
    ("sklearn-param-validation", "InvalidParameterError", r".*"),
    ("pandas2-fillna-method", "TypeError", r"fillna\(\) got an unexpected keyword argument 'method'"),
    ("numpy2-removed-alias", "AttributeError", r"`?np\.[A-Za-z_0-9]+`? was removed in the NumPy 2\.0"),
    ("numpy2-removed-alias", "AttributeError", r"module 'numpy' has no attribute"),
    ("pandas2-removed-api", "AttributeError", r"'(DataFrame|Series|Index|RangeIndex)' object has no attribute '(append|iteritems|is_monotonic|mad|is_all_dates)'"),
    ("pandas2-removed-kw", "TypeError", r"got an unexpected keyword argument '(squeeze|line_terminator|inplace|closed|kind)'"),
    ("sklearn-removed-kw", "TypeError", r"got an unexpected keyword argument '(base_estimator|normalize|squared|min_impurity_split)'"),
    ("soft-dependency-missing", "ModuleNotFoundError", r".*"),
]
# signatures that only count when raised at a given site (innermost sktime frame "file:func"):
# numba-compiled functions do not bounds-check, the pure-Python stub of the layer does
SITE_TABLE = [
    # numpy 2 refuses `arr[i] = one_element_array`, which the reduction code does with a regressor's single-row output
    ("numpy2-setitem-sequence", "ValueError", r"setting an array element with a sequence", r"compose/_reduce\.py:_predict_last_window$"),
    ("numpy2-setitem-sequence", "TypeError", r"only (length-1|0-dimensional) arrays can be converted", r"compose/_reduce\.py:_predict_last_window$"),
    ("numba-stub-bounds-check", "IndexError", r"out of bounds", r"dictionary_based/_sfa\.py:_create_word$"),
    # scipy's Brent bracketing gives up on a monotone Box-Cox objective (series with extreme outliers, method="pearsonr"): a numerical
    # refusal of the third-party optimiser (older scipy: RuntimeError "Too many iterations"), no property speaks about it
    ("scipy-optimizer-no-bracket", "BracketError", r"valid bracket", r"series/boxcox\.py:optimizer$"),
    ("scipy-optimizer-no-bracket", "RuntimeError", r"Too many iterations", r"series/boxcox\.py:optimizer$"),
]
_C = [(n, t, re.compile(p)) for n, t, p in TABLE]
_S = [(n, t, re.compile(p), re.compile(s)) for n, t, p, s in SITE_TABLE]


def match(exc, site):
    tn = type(exc).__name__
    msg = str(exc)
    for name, t, rx in _C:
        if t == tn and rx.search(msg):
            return name
    sk = (site or (None, None))[0] or ""
    for name, t, rx, sx in _S:
        if t == tn and rx.search(msg) and sx.search(sk):
            return name
    return None
