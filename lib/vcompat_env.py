"""Fixed table of exception signatures attributed to the sandbox's third-party versions
(pandas 2 / numpy 2 / scikit-learn 1.7 / statsmodels 0.15) rather than to the repository.
A case that ends in one of these is counted `env_skipped`: neither held nor violated.
The table is never extended at run time."""
import re

# (name, exception type name, message regex)
TABLE = [
    ("numpy2-setitem-sequence", "ValueError", r"setting an array element with a sequence"),
    ("numpy2-setitem-sequence", "TypeError", r"only (length-1|0-dimensional) arrays can be converted"),
    ("sklearn-param-validation", "InvalidParameterError", r".*"),
    ("pandas2-fillna-method", "TypeError", r"fillna\(\) got an unexpected keyword argument 'method'"),
    ("numpy2-removed-alias", "AttributeError", r"`?np\.[A-Za-z_0-9]+`? was removed in the NumPy 2\.0"),
    ("numpy2-removed-alias", "AttributeError", r"module 'numpy' has no attribute"),
    ("pandas2-removed-api", "AttributeError", r"'(DataFrame|Series|Index|RangeIndex)' object has no attribute '(append|iteritems|is_monotonic|mad|is_all_dates)'"),
    ("pandas2-removed-kw", "TypeError", r"got an unexpected keyword argument '(squeeze|line_terminator|inplace|closed|kind)'"),
    ("sklearn-removed-kw", "TypeError", r"got an unexpected keyword argument '(base_estimator|normalize|squared|min_impurity_split)'"),
    ("soft-dependency-missing", "ModuleNotFoundError", r".*"),
]
_C = [(n, t, re.compile(p)) for n, t, p in TABLE]


def match(exc, site):
    tn = type(exc).__name__
    msg = str(exc)
    for name, t, rx in _C:
        if t == tn and rx.search(msg):
            return name
    return None
