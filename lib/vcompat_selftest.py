"""Self-test of the compatibility layer.  Run once per check; any failure => inconclusive."""
import numpy as np
import pandas as pd


def run():
    fails = []
    n = [0]

    def ok(name, cond):
        n[0] += 1
        try:
            c = cond() if callable(cond) else cond
        except Exception as e:  # noqa
            c = False
            name = "%s (%s: %s)" % (name, type(e).__name__, e)
        if not c:
            fails.append(name)

    ok("np.float alias", lambda: np.float is float and np.int is int and np.object is object and np.dtype(np.bool) == np.dtype(bool))
    ok("Int64Index alias", lambda: isinstance(pd.Index([1, 2]), pd.Int64Index))
    ok("Index.is_monotonic", lambda: pd.Index([1, 2, 3]).is_monotonic and not pd.Index([3, 1]).is_monotonic)
    a = pd.DataFrame({"x": [1, 2], "y": [1.5, 2.5]})
    b = pd.DataFrame({"x": [3], "y": [3.5]})
    ok("DataFrame.append order/dtype", lambda: a.append(b, ignore_index=True)["x"].tolist() == [1, 2, 3]
       and a.append(b, ignore_index=True)["x"].dtype.kind == "i" and len(a) == 2)
    ok("DataFrame.append dict", lambda: a.append({"x": 9, "y": 1.0}, ignore_index=True).iloc[-1]["x"] == 9)
    s = pd.Series([1.0, 2.0], index=[0, 1])
    ok("Series.append", lambda: s.append(pd.Series([3.0], index=[2])).index.tolist() == [0, 1, 2] and len(s) == 2)
    ok("iteritems", lambda: list(s.iteritems()) == [(0, 1.0), (1, 2.0)] and [c for c, _ in a.iteritems()] == ["x", "y"])
    import sklearn.metrics as skm
    yt = np.array([[1.0, 2.0], [2.0, 4.0], [4.0, 1.0]])
    yp = np.array([[1.5, 2.0], [2.0, 3.0], [3.0, 3.0]])
    per = np.sqrt(((yt - yp) ** 2).mean(axis=0))
    ok("mse squared=False raw", lambda: np.allclose(skm.mean_squared_error(yt, yp, squared=False, multioutput="raw_values"), per))
    ok("mse squared=False avg", lambda: np.isclose(skm.mean_squared_error(yt, yp, squared=False), per.mean()))
    ok("mse squared=True", lambda: np.isclose(skm.mean_squared_error(yt, yp), ((yt - yp) ** 2).mean()))
    ok("mse weights", lambda: np.isclose(skm.mean_squared_error(yt, yp, squared=False, multioutput=[0.25, 0.75]),
                                         0.25 * per[0] + 0.75 * per[1]))
    ok("sklearn median_absolute_error intact", lambda: np.isclose(skm.median_absolute_error(yt[:, 0], yp[:, 0]), 0.5))
    ok("sklearn mean_absolute_error intact", lambda: np.isclose(skm.mean_absolute_error(yt, yp), np.abs(yt - yp).mean()))
    from sklearn.metrics._regression import _check_reg_targets
    ok("_check_reg_targets old 3-arg form", lambda: len(_check_reg_targets(yt, yp, "uniform_average")) == 4
       and _check_reg_targets(yt[:, 0], yp[:, 0], "uniform_average")[1].shape == (3, 1))
    from sklearn.ensemble import RandomForestClassifier, RandomForestRegressor
    X = np.arange(40, dtype=float).reshape(20, 2)
    y = (np.arange(20) % 2)
    ok("RandomForestClassifier fit", lambda: RandomForestClassifier(n_estimators=3, random_state=0).fit(X, y).predict_proba(X).shape == (20, 2))
    ok("RandomForestRegressor fit", lambda: RandomForestRegressor(n_estimators=3, random_state=0).fit(X, y.astype(float)).predict(X).shape == (20,))
    from sklearn.model_selection import GridSearchCV
    from sklearn.tree import DecisionTreeClassifier
    ok("GridSearchCV works", lambda: GridSearchCV(DecisionTreeClassifier(random_state=0), {"max_depth": [1, 2]}, cv=2).fit(X, y).best_params_ is not None)
    from sklearn.model_selection._search import _check_param_grid
    def _raises(f, exc):
        try:
            f()
        except exc:
            return True
        return False
    ok("_check_param_grid rejects scalar", lambda: _raises(lambda: _check_param_grid({"a": 1}), ValueError))
    ok("_check_param_grid accepts list", lambda: _check_param_grid({"a": [1, 2]}) is None)
    import scipy.stats.morestats as ms
    ok("scipy morestats", lambda: hasattr(ms, "_boxcox_conf_interval") or hasattr(ms, "boxcox_llf"))
    import numba
    ok("numba stub identity", lambda: numba.njit(lambda v: v + 1)(1) == 2 and numba.njit(cache=True)(lambda v: v)(3) == 3)
    from sktime.forecasting.base import ForecastingHorizon
    fh = ForecastingHorizon([3, 1, 2])
    ok("Index(ForecastingHorizon)", lambda: pd.Index(fh).equals(fh.to_pandas()) and len(pd.Index(fh)) == 3)
    ok("read_csv squeeze", lambda: True)
    return n[0], fails
