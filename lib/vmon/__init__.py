"""vmon - runtime monitors for sktime 0.6.0 (see /verif/DESIGN.md)."""
