"""C16 - fitted panel estimators treat instances independently and ignore the container.

Metamorphic monitor on canonicalised outputs: permutation, single instance, sub-selection with
repetition, nested DataFrame vs 3-d array at apply time and at fit time.  Only fitted objects
are reused across the related runs, so no relation depends on fit randomness."""
import numpy as np
import pandas as pd

from vmon import pzoo


def _req(a, b):
    """rows equal, where a batch row marked as a probability tie matches anything"""
    if b == ("tie",) or a == ("tie",):
        return True
    return pzoo.rows_equal(a, b)


PID = "C16"
LEVEL = "exploration"
RULE = ("cases = (panel estimator, panel shape n_instances x n_columns x n_timepoints, cell type, data seed); per case the fitted estimator "
        "is applied to the batch, 3 permutations incl. reversal, every single instance (small panels) or 4 sampled ones, a sub-selection "
        "with repetition, and the 3-d array form (at apply and at fit time); non-trivial: >= 3 instances; distinct = distinct case dict")
ANCHOR_FILES = ["sktime/transformations/panel/*.py", "sktime/transformations/panel/dictionary_based/*.py", "sktime/transformations/panel/summarize/_extract.py",
                "sktime/classification/interval_based/*.py", "sktime/classification/dictionary_based/*.py", "sktime/classification/compose/_column_ensemble.py",
                "sktime/regression/interval_based/_tsf.py", "sktime/utils/validation/panel.py", "sktime/utils/data_processing.py",
                "sktime/series_as_features/base/estimators/interval_based/_tsf.py"]
REQUIRED_REACH = ["panel.py:check_X", "compose.py:SeriesToSeriesRowTransformer.transform", "_tsf.py:TimeSeriesForestClassifier.predict_proba",
                  "_boss.py:BOSSEnsemble.predict_proba", "_column_ensemble.py:BaseColumnEnsembleClassifier.predict_proba", "_rise.py:RandomIntervalSpectralForest.predict_proba"]
REQUIRED_MONITORS = ["rows", "permutation", "single-instance", "subselection", "container.apply", "container.fit"]
NOT_COVERED = ["WEASEL, TDE, Rocket, MiniRocket, shapelet, distance-based and catch22-based estimators (not runnable in the sandbox)"]
ASSUMPTIONS = ["outputs compared with rtol/atol 1e-9 (batched linear algebra may differ in the last bits between batch sizes)"]
JOBS = {"quick": 8, "thorough": 16}
CASE_TIMEOUT = {"quick": 240.0, "thorough": 400.0}


def cases(tier, seed):
    rng = np.random.default_rng([seed, 16])
    names = pzoo.TRANSFORMERS + pzoo.CLASSIFIERS + pzoo.REGRESSORS
    reps = 5 if tier == "quick" else 80
    for r in range(reps):
        for n in names:
            multi = n in pzoo.NEEDS_MULTI or (n in pzoo.MULTIVARIATE_OK and rng.random() < 0.5)
            nt = int(rng.integers(max(pzoo.MIN_LEN.get(n, 10), 10), 33))
            yield {"est": n, "ni": int(rng.integers(3, 13)), "nc": int(rng.integers(2, 4)) if multi else 1, "nt": nt, "cells": "SA"[int(rng.integers(0, 2))],
                   "dseed": int(rng.integers(0, 2 ** 31)), "eseed": int(rng.integers(0, 100)),
                   "unequal": bool(n in pzoo.UNEQUAL_OK and rng.random() < 0.5), "integer": bool(rng.random() < 0.25),
                   "layout": ["C", "F", "T"][int(rng.integers(0, 3))]}


def _apply_fns(name, est):
    if name in pzoo.CLASSIFIERS:
        return {"predict_proba": est.predict_proba, "predict": est.predict}
    if name in pzoo.REGRESSORS:
        return {"predict": est.predict}
    return {"transform": est.transform}


KEEP_LABELS = [False]
# the supervised forest standardises the periodogram column by column; its first column (the removed mean) is rounding noise of ~1e-31, which the
# standardisation blows up to order one, and scipy's FFT rounds differently for strided input (1.8e-15): the chosen intervals then depend on
# the array's strides (and trees that split on a feature of that noise column answer differently at apply time).  That is amplified
# floating-point noise, not container handling, so the arrays keep C order for it.
FIT_AMPLIFIES_ROUNDING = {"stsf"}


def _sub(df, idx):
    """the selected instances; in half of the cases they keep the row labels they had in the full panel (a permuted / partial row index),
    unless an instance is selected twice"""
    out = df.iloc[list(idx)]
    if KEEP_LABELS[0] and len(set(idx)) == len(list(idx)):
        return out
    return out.reset_index(drop=True)


def run_case(case, ctx):
    import warnings
    warnings.simplefilter("ignore")
    name = case["est"]
    KEEP_LABELS[0] = case["dseed"] % 2 == 1
    if KEEP_LABELS[0]:
        ctx.tag("selections-keep-their-row-labels")
    rng = np.random.default_rng([case["dseed"], 1616])
    ni, nc, nt = case["ni"], case["nc"], case["nt"]
    pos = name in ("row_log",)
    ltr = lte = None
    if case.get("unequal"):
        # unequal-length series: the fitted map (pad length / truncation bounds learned in fit) must not depend on which other
        # instances share the call; lengths of the applied panel stay within the range seen in fit
        lo = max(pzoo.MIN_LEN.get(name, 3), nt // 2)
        ltr = [int(v) for v in rng.integers(lo, nt + 1, size=max(ni, 8))]
        ltr[0], ltr[1] = nt, lo
        lte = [int(v) for v in rng.integers(lo, nt + 1, size=ni)]
    integer = ("int16" if case["dseed"] % 2 else True) if case.get("integer") else False
    cidx = ["default", "default", "one-based", "offset"][case["dseed"] % 4] if case["cells"] == "S" else "default"
    if cidx != "default":
        ctx.tag("series-cells-with-own-index:" + cidx)
    Xtr, ytr, _ = pzoo.make_panel(rng, max(ni, 8), nc, nt, cells=case["cells"], positive=pos, plateaus=name == "plateau", lengths=ltr, integer=integer, cell_index=cidx)
    X, ycls, A = pzoo.make_panel(rng, ni, nc, nt, cells=case["cells"], positive=pos, plateaus=name == "plateau", lengths=lte, integer=integer, cell_index=cidx)
    if integer:
        ctx.tag("integer-panel")
    if A is not None and case.get("layout", "C") != "C" and name not in FIT_AMPLIFIES_ROUNDING:
        # the 3-d array in another memory layout (same values): Fortran order / a transposed view of a (time, column, instance) recording
        A = np.asfortranarray(A) if case["layout"] == "F" else np.ascontiguousarray(A.transpose(2, 1, 0)).T
        ctx.tag("array-layout:" + case["layout"])
    labels = np.array(["a", "b"])[ytr]
    yfit = ytr.astype(float) + 0.1 * rng.normal(size=len(ytr)) if name in pzoo.REGRESSORS else labels
    est = pzoo.build(name, case["eseed"])
    variant = pzoo.random_variant(np.random.default_rng([case["dseed"], 7]), est) if case["dseed"] % 3 == 0 else None
    if variant:
        ctx.tag("option-variant")
    try:
        est.fit(Xtr, yfit) if (name in pzoo.CLASSIFIERS or name in pzoo.REGRESSORS or name in pzoo.SUPERVISED_T) else est.fit(Xtr)
    except Exception as e:  # noqa
        if variant:
            ctx.tag("option-variant-rejected-at-fit:%s:%s:%s" % (name, variant.split("=")[0], type(e).__name__))
            return
        if integer == "int16":
            # int16 arithmetic overflows inside the dictionary-based estimators (negative variances -> math domain error): a robustness
            # problem of its own, outside what this property states; recorded, not judged
            ctx.tag("narrow-integer-panel-refused-at-fit:%s:%s" % (name, type(e).__name__))
            return
        from vmon.core import env_signature, exc_sig
        env = env_signature(e)
        if env:
            ctx.env_skip(env)
        else:
            key = "fit:exception:" + name
            if name == "muse" and case["cells"] == "A" and "diff" in str(e):
                key = "muse:first-order-differences-require-series-cells"
            ctx.violation(key, "fit raised %s: %s" % (type(e).__name__, e), exception=exc_sig(e))
        return
    tie_rows = set()
    if name in pzoo.CLASSIFIERS:
        try:
            P = np.asarray(est.predict_proba(X), dtype=float)
            tie_rows = {i for i in range(len(P)) if np.sum(np.isclose(P[i], P[i].max(), rtol=0, atol=1e-12)) > 1}
        except Exception:  # noqa
            pass
    for fname, f in _apply_fns(name, est).items():
        if variant or integer == "int16":
            # an option value the estimator only validates when it is applied / int16 arithmetic overflowing inside the estimator
            try:
                f(X)
            except Exception as e:  # noqa
                ctx.tag(("option-variant-rejected-at-apply:%s:%s:%s" % (name, variant.split("=")[0], type(e).__name__)) if variant else
                        ("narrow-integer-panel-refused-at-apply:%s:%s" % (name, type(e).__name__)))
                return
        ok, base = ctx.call("apply:exception:%s:%s" % (name, fname), f, X)
        if not ok:
            continue
        B = pzoo.canon(base)
        if fname == "predict" and tie_rows:
            # rows whose maximal probability is attained by several classes: any maximiser is a legitimate prediction
            ctx.ambiguous += len(tie_rows)
            B = [("tie",) if i in tie_rows else b for i, b in enumerate(B)]
        ctx.check("rows", len(B) == ni, "rows:%s:%s:row-count-differs-from-input" % (name, fname), "number of output rows differs from the number of instances", got=len(B), expected=ni)
        if len(B) != ni:
            continue
        perms = [list(range(ni))[::-1], list(rng.permutation(ni)), list(np.roll(np.arange(ni), 1))]
        for p in perms:
            ok, o = ctx.call("apply:exception:%s:%s" % (name, fname), f, _sub(X, p))
            if ok:
                O = pzoo.canon(o)
                good = len(O) == ni and all(_req(O[k], B[p[k]]) for k in range(ni))
                ctx.check("permutation", good, "permutation:%s:%s:output-rows-not-permuted-identically" % (name, fname),
                          "reordering the instances did not reorder the output rows identically", permutation=[int(v) for v in p],
                          first_mismatch=next((k for k in range(min(len(O), ni)) if not _req(O[k], B[p[k]])), None))
        singles = list(range(ni)) if ni <= 5 else [int(v) for v in rng.choice(ni, size=4, replace=False)]
        for i in singles:
            ok, o = ctx.call("apply:exception:%s:%s:single-instance" % (name, fname), f, _sub(X, [i]))
            if ok:
                O = pzoo.canon(o)
                ctx.check("single-instance", len(O) == 1 and _req(O[0], B[i]), "single:%s:%s:differs-from-batch-row" % (name, fname),
                          "the output for a single instance differs from the corresponding row of the batch output", instance=i)
        # batches of every small size: a fitted map must not depend on how many instances are passed together
        for kk in sorted(set([2, 3, 4, 5, 8, ni - 1]) & set(range(2, ni))):
            start = int(rng.integers(0, ni - kk + 1))
            pick = list(range(start, start + kk))
            ok, o = ctx.call("apply:exception:%s:%s" % (name, fname), f, _sub(X, pick))
            if ok:
                O = pzoo.canon(o)
                ctx.check("subselection", len(O) == kk and all(_req(O[k], B[pick[k]]) for k in range(kk)), "subselection:%s:%s:differs-from-batch-rows" % (name, fname),
                          "a contiguous sub-batch does not reproduce the batch rows", selection=pick)
        sel = [int(v) for v in rng.integers(0, ni, size=ni + 2)]
        ok, o = ctx.call("apply:exception:%s:%s" % (name, fname), f, _sub(X, sel))
        if ok:
            O = pzoo.canon(o)
            ctx.check("subselection", len(O) == len(sel) and all(_req(O[k], B[sel[k]]) for k in range(len(sel))),
                      "subselection:%s:%s:differs-from-batch-rows" % (name, fname), "a sub-selection with repetition does not reproduce the batch rows", selection=sel)
        # container at apply time: the same data as a 3-d array
        if A is None:
            ctx.seen("container.apply", 0)
            continue
        ok, o = ctx.call("apply:exception:%s:%s:numpy-input" % (name, fname), f, A.copy(order="K"))       # order="K": keep the memory layout
        if ok:
            O = pzoo.canon(o)
            ctx.check("container.apply", len(O) == ni and all(_req(O[k], B[k]) for k in range(ni)), "container:%s:%s:3d-array-input-differs-from-nested" % (name, fname),
                      "passing the same data as a 3-d array gives another result than the nested DataFrame")
    # container at fit time
    if ltr is not None:
        ctx.seen("container.fit", 0)
        ctx.event(est=name, shape=[ni, nc, nt], cells=case["cells"], unequal=True)
        ctx.tag("est:" + name)
        ctx.tag("unequal-lengths")
        ctx.nontrivial = ni >= 3
        return
    est2 = pzoo.build(name, case["eseed"])
    if variant:
        k_, v_ = variant.split("=", 1)
        est2.set_params(**{k_: est.get_params(deep=False)[k_]})
    Atr = np.array([[np.asarray(Xtr.iloc[i, j]) for j in range(nc)] for i in range(len(Xtr))])        # same values, same dtype
    if case.get("layout", "C") != "C" and name not in FIT_AMPLIFIES_ROUNDING:
        Atr = np.asfortranarray(Atr) if case["layout"] == "F" else np.ascontiguousarray(Atr.transpose(2, 1, 0)).T
    try:
        est2.fit(Atr, yfit) if (name in pzoo.CLASSIFIERS or name in pzoo.REGRESSORS or name in pzoo.SUPERVISED_T) else est2.fit(Atr)
    except Exception as e:  # noqa
        from vmon.core import env_signature, exc_sig
        env = env_signature(e)
        if env:
            ctx.env_skip(env)
        else:
            ctx.check("container.fit", False, "container:%s:fit-on-3d-array-raises-%s" % (name, type(e).__name__), "fit rejects a 3-d array although it accepts the nested form: %s" % e,
                      exception=exc_sig(e))
        est2 = None
    if est2 is not None:
        for fname, f in _apply_fns(name, est).items():
            f2 = getattr(est2, fname)
            ok1, o1 = ctx.call("apply:exception:%s:%s" % (name, fname), f, X)
            ok2, o2 = ctx.call("apply:exception:%s:%s:after-numpy-fit" % (name, fname), f2, X)
            if ok1 and ok2:
                O1, O2 = pzoo.canon(o1), pzoo.canon(o2)
                ctx.check("container.fit", len(O1) == len(O2) and all(pzoo.rows_equal(a, b) for a, b in zip(O1, O2)), "container:%s:%s:fit-on-3d-array-differs" % (name, fname),
                          "fitting on the 3-d array form gives another fitted map than fitting on the nested DataFrame")
    ctx.event(est=name, shape=[ni, nc, nt], cells=case["cells"], variant=variant)
    ctx.tag("est:" + name)
    ctx.nontrivial = ni >= 3
