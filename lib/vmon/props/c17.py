"""C17 - classifiers return well-formed probabilities consistent with their predictions.

Black-box invariants (shape, range, row sums, classes_ order, arg-max agreement, label type,
score) over all runnable classifiers and label sets, plus composition monitors: the time series
forest's `_transform` is wrapped to record (intervals, features); features are compared with an
independent mean / std / least-squares slope, and the forest output is recomputed from the
recorded features with the fitted trees; the column ensemble is compared with the average of
its members on their own columns."""
import numpy as np
import pandas as pd

from vmon import pzoo

PID = "C17"
LEVEL = "exploration"
RULE = ("cases = (classifier, label set: ints / non-contiguous ints / python and numpy strings of mixed case, 2-5 classes, unbalanced, "
        "labels as ndarray or Series, panel shape, random_state seed), time-series-forest composition cases (classifier and regressor) and "
        "supervised-forest cases on small multi-class panels (trees whose bag missed a class); "
        "non-trivial: >= 2 classes actually predicted or probabilities not all one-hot; distinct = distinct case dict")
ANCHOR_FILES = ["sktime/classification/base.py", "sktime/classification/interval_based/*.py", "sktime/classification/dictionary_based/*.py",
                "sktime/classification/compose/_column_ensemble.py", "sktime/series_as_features/base/estimators/interval_based/_tsf.py",
                "sktime/regression/interval_based/_tsf.py", "sktime/utils/slope_and_trend.py", "sktime/regression/base.py"]
REQUIRED_REACH = ["_tsf.py:TimeSeriesForestClassifier.predict_proba", "_tsf.py:_transform", "_tsf.py:_get_intervals", "_boss.py:BOSSEnsemble.predict_proba",
                  "_cboss.py:ContractableBOSS.predict_proba", "_column_ensemble.py:BaseColumnEnsembleClassifier.predict_proba", "_tsf.py:TimeSeriesForestRegressor.predict",
                  "slope_and_trend.py:_slope", "_rise.py:RandomIntervalSpectralForest.predict_proba", "_stsf.py:SupervisedTimeSeriesForest.predict_proba", "_muse.py:MUSE.predict_proba"]
REQUIRED_MONITORS = ["votes", "proba.shape", "proba.range", "proba.rowsum", "classes_", "predict.argmax", "predict.label-type", "score", "tsf.features", "tsf.average-of-trees",
                     "tsfreg.average-of-trees", "column-ensemble.average"]
NOT_COVERED = ["WEASEL, TDE, shapelet, distance-based, catch22-based and ROCKET classifiers (not runnable in the sandbox)",
               "float class labels (scikit-learn's target-type check rejects them as continuous)"]
ASSUMPTIONS = ["'in the label type the user supplied' is judged by equality with a training label and dtype kind (str and np.str_ are the same label)",
               "ties in the maximal probability: any maximiser is accepted"]
JOBS = {"quick": 8, "thorough": 16}
CASE_TIMEOUT = {"quick": 240.0, "thorough": 400.0}
LABELSETS = {
    "int2": [0, 1], "int3": [0, 1, 2], "noncontig": [-3, 10, 7], "str2": ["a", "b"], "mixedcase": ["Up", "down", "MID"], "npstr": "np:x,y,z",
    "int5": [1, 2, 3, 4, 5], "strnum": ["10", "2", "33"], "single-member": [0, 1, 2], "rare-low": [3, 10, 25], "rare-mid": ["a", "b", "c"],
}


def cases(tier, seed):
    rng = np.random.default_rng([seed, 17])
    reps = 4 if tier == "quick" else 40
    for r in range(reps):
        for clf in pzoo.CLASSIFIERS:
            for ls in LABELSETS:
                if rng.random() < (0.55 if tier == "quick" else 0.0):
                    continue
                multi = clf in pzoo.NEEDS_MULTI or (clf in pzoo.MULTIVARIATE_OK and rng.random() < 0.4)
                yield {"kind": "blackbox", "clf": clf, "labels": ls, "as_series": bool(rng.random() < 0.4), "ni": int(rng.integers(12, 22)),
                       "nc": int(rng.integers(2, 4)) if multi else 1, "nt": int(rng.integers(max(pzoo.MIN_LEN.get(clf, 12), 12), 30)),
                       "unbalanced": bool(rng.random() < 0.4), "dseed": int(rng.integers(0, 2 ** 31)), "eseed": int(rng.integers(0, 100))}
    for r in range(40 if tier == "quick" else 600):
        yield {"kind": "tsf", "which": ["clf", "reg"][r % 2], "ni": int(rng.integers(8, 20)), "nt": int(rng.integers(6, 40)),
               "n_estimators": 1 if r % 10 in (0, 5) else int(rng.integers(1, 8)),     # the single-tree forest is always in the workload (both kinds)
               "min_interval": int(rng.integers(3, 6)), "classes": int(rng.integers(2, 5)), "n_jobs": [1, 1, 2][r % 3], "dseed": int(rng.integers(0, 2 ** 31)),
               "eseed": int(rng.integers(0, 100)), "values": ["float", "float", "int-nested", "int-array", "int16-array"][int(rng.integers(0, 5))]}
    # supervised forest on small multi-class panels: class-balanced bags that miss a class are frequent there
    for r in range(24 if tier == "quick" else 400):
        yield {"kind": "stsf", "per_class": int(rng.integers(2, 4)), "classes": int(rng.integers(2, 5)), "nt": int(rng.integers(16, 40)), "n_estimators": int(rng.integers(8, 25)),
               "labels": ["int3", "mixedcase", "noncontig", "int5", "strnum"][int(rng.integers(0, 5))], "dseed": int(rng.integers(0, 2 ** 31)), "eseed": int(rng.integers(0, 100))}
    for r in range(20 if tier == "quick" else 300):
        FORMS = ["list", "int", "name", "names", "slice", "mask", "callable", "array", "mask-array", "callable-array"]
        k = int(rng.integers(1, 4))
        yield {"kind": "colens", "members": k, "nc": int(rng.integers(3, 6)), "ni": int(rng.integers(10, 18)), "nt": int(rng.integers(12, 24)),
               "classes": int(rng.integers(2, 4)), "dseed": int(rng.integers(0, 2 ** 31)), "eseed": int(rng.integers(0, 100)),
               "forms": [FORMS[int(rng.integers(0, len(FORMS)))] for _ in range(k)], "names": ["default", "unsorted"][int(rng.integers(0, 2))],
               "skipped": [[["drop", "empty"][int(rng.integers(0, 2))], int(rng.integers(0, 4))] for _ in range(int(rng.integers(0, 3)))],
               "remainder": bool(rng.random() < 0.5)}


def _labels(name, cls_idx, k):
    ls = LABELSETS[name]
    if isinstance(ls, str):
        vals = np.array(ls[3:].split(","))
        return vals[cls_idx % len(vals)], list(vals[:k] if k <= len(vals) else vals)
    vals = list(ls)
    out = np.array([vals[i % len(vals)] for i in cls_idx])
    return out, vals


def run_case(case, ctx):
    import warnings
    warnings.simplefilter("ignore")
    if case["kind"] == "blackbox":
        return _blackbox(case, ctx)
    if case["kind"] == "tsf":
        return _tsf(case, ctx)
    if case["kind"] == "stsf":
        return _stsf(case, ctx)
    return _colens(case, ctx)


def _stsf(case, ctx):
    """the supervised forest's probabilities are the average over its trees of each tree's probabilities, every tree's columns placed at the
    positions of the classes THAT TREE saw (reference: dictionary look-up of the tree's own classes_ in the forest's classes_)"""
    from scipy import signal
    from sktime.classification.interval_based import SupervisedTimeSeriesForest
    rng = np.random.default_rng([case["dseed"], 1723])
    vals = list(LABELSETS[case["labels"]])
    k = min(case["classes"], len(vals))
    ni = k * case["per_class"]
    X, cidx, _ = pzoo.make_panel(rng, ni, 1, case["nt"], classes=k)
    cidx = np.arange(ni) % k
    y = np.array([vals[c] for c in cidx])
    Xte, _, _ = pzoo.make_panel(rng, 7, 1, case["nt"], classes=k)
    est = SupervisedTimeSeriesForest(n_estimators=case["n_estimators"], random_state=case["eseed"])
    ok, _ = ctx.call("stsf:fit-exception", est.fit, X, y)
    if not ok:
        return
    ok, out = ctx.call("stsf:predict_proba-exception", est.predict_proba, Xte)
    if not ok:
        return
    out = np.asarray(out, dtype=float)
    classes = list(est.classes_)
    ctx.check("classes_", classes == sorted(set(y.tolist())), "stsf:classes_-not-the-sorted-training-labels", "classes_ differs from the sorted distinct training labels", got=[str(c) for c in classes])
    A = np.stack([np.asarray(Xte.iloc[i, 0], dtype=float) for i in range(len(Xte))])
    _, A_p = signal.periodogram(A)
    A_d = np.diff(A, 1)
    pos = {c: j for j, c in enumerate(classes)}
    acc = np.zeros((len(A), len(classes)))
    deficient, misplaced_possible = 0, 0
    for tree, ivs in zip(est.estimators_, est.intervals_):
        feats = np.concatenate([est._transform(A, ivs[0]), est._transform(A_p, ivs[1]), est._transform(A_d, ivs[2])], axis=1)
        p = tree.predict_proba(feats)
        tc = list(tree.classes_)
        if len(tc) < len(classes):
            deficient += 1
            misplaced_possible += int(tc != classes[:len(tc)])
        for j, c in enumerate(tc):
            acc[:, pos[c]] += p[:, j]
    exp = acc / len(est.estimators_)
    ctx.check("proba.shape", out.shape == exp.shape, "stsf:proba-shape", "predict_proba shape is not (instances, classes seen in training)", got=list(out.shape), expected=list(exp.shape))
    if out.shape == exp.shape:
        ctx.check("tsf.average-of-trees", np.allclose(out, exp, atol=1e-9), "stsf:proba-not-class-aligned-average-of-trees",
                  "supervised forest probabilities are not the average of its trees' probabilities with every tree's columns at the positions of the classes it saw",
                  got=out[0].tolist(), expected=exp[0].tolist(), trees_that_missed_a_class=deficient, classes=[str(c) for c in classes])
        ctx.check("proba.rowsum", np.allclose(out.sum(axis=1), 1.0, atol=1e-9), "stsf:rows-do-not-sum-to-one", "probability rows do not sum to one", got=out.sum(axis=1)[:3].tolist())
        pred = est.predict(Xte)
        ctx.check("predict.argmax", all(exp[i, pos[pred[i]]] >= exp[i].max() - 1e-9 for i in range(len(pred))), "stsf:predict-not-a-maximiser-of-the-tree-average",
                  "predict does not return a class with maximal (class-aligned) average tree probability")
    ctx.tag("stsf:trees-that-missed-a-class", deficient)
    ctx.tag("stsf:trees-whose-classes-are-not-a-leading-prefix", misplaced_possible)
    ctx.event(kind="stsf", classes=k, per_class=case["per_class"], n_estimators=case["n_estimators"], deficient_trees=deficient, not_prefix=misplaced_possible)
    ctx.nontrivial = deficient >= 1


def _blackbox(case, ctx):
    name = case["clf"]
    rng = np.random.default_rng([case["dseed"], 1717])
    ls = LABELSETS[case["labels"]]
    k = len(ls[3:].split(",")) if isinstance(ls, str) else len(ls)
    cix = ["default", "default", "one-based", "offset"][case["dseed"] % 4]
    X, cidx, _ = pzoo.make_panel(rng, case["ni"], case["nc"], case["nt"], classes=k, cell_index=cix)
    if case["unbalanced"]:
        cidx = np.where(rng.random(len(cidx)) < 0.6, 0, cidx)
        cidx[:k] = np.arange(k)
    if case["labels"] == "single-member":
        cidx = np.where(cidx == 2, 0, cidx)
        cidx[0], cidx[1], cidx[2], cidx[3] = 0, 1, 2, 1        # class 2 has exactly one member
    if case["labels"] in ("rare-low", "rare-mid"):
        # a rare class that is NOT the greatest label: sub-sampled ensemble members may never see it
        rare = 0 if case["labels"] == "rare-low" else 1
        others = [c for c in range(k) if c != rare]
        cidx = np.array([others[i % len(others)] for i in range(len(cidx))])
        cidx[:2] = rare
    y, vals = _labels(case["labels"], cidx, k)
    ytrain = pd.Series(y) if case["as_series"] else y
    Xte, cte, _ = pzoo.make_panel(rng, 9, case["nc"], case["nt"], classes=k, cell_index=cix)
    yte, _ = _labels(case["labels"], cte, k)
    clf = pzoo.build(name, case["eseed"])
    if case["dseed"] % 4 == 1:
        # the classifier under another value of one of its constructor options (refused combinations end the case)
        variant = pzoo.random_variant(np.random.default_rng([case["dseed"], 7]), clf)
        if variant:
            vk = variant.split("=", 1)[0]
            try:
                probe = pzoo.build(name, case["eseed"])
                probe.set_params(**{vk: clf.get_params(deep=False)[vk]})
                probe.fit(X, ytrain)
                pp = np.asarray(probe.predict_proba(Xte), dtype=float)
                if getattr(probe, "n_estimators", 1) == 0 and hasattr(probe, "classifiers"):
                    # the option value leaves no admissible window for series of this length: the ensemble has no member at all
                    ctx.tag("option-variant-degenerate:%s:%s:empty-ensemble" % (name, vk))
                    return
            except Exception as e:  # noqa
                ctx.tag("option-variant-rejected:%s:%s:%s" % (name, vk, type(e).__name__))
                return
            ctx.tag("option-variant")
    if case["dseed"] % 3 == 0:
        # the instance had an earlier life: fitted on another problem with more classes and other label values (of the same type);
        # after fit on this problem nothing of that may show (all monitors below run on the reused instance)
        # (every other case: the SAME number of classes with other label values - nothing of the earlier label table may survive either)
        k0 = k + 2 if case["dseed"] % 2 else k
        X0, c0, _ = pzoo.make_panel(rng, max(case["ni"], 2 * k0), case["nc"], case["nt"] + 3, classes=k0)
        sample = np.asarray(y).tolist()[0]
        if isinstance(sample, str):
            y0 = np.array(["zz%d" % v for v in c0])
        elif isinstance(sample, (bool, np.bool_)):
            y0 = None
        else:
            y0 = (np.asarray(c0) * 7 - 3).astype(np.asarray(y).dtype)
        if y0 is not None:
            try:
                clf.fit(X0, y0)
                clf.predict_proba(X0)
                ctx.tag("classifier:reused-instance")
            except Exception:  # noqa
                clf = pzoo.build(name, case["eseed"])
    ok, _ = ctx.call("fit:exception:" + name, clf.fit, X, ytrain)
    if not ok:
        return
    ok, P = ctx.call("predict_proba:exception:" + name, clf.predict_proba, Xte)
    ok2, pred = ctx.call("predict:exception:" + name, clf.predict, Xte)
    if not (ok and ok2):
        return
    P = np.asarray(P, dtype=float)
    seen = sorted(set(np.asarray(y).tolist()))
    classes = list(np.asarray(clf.classes_).tolist())
    ctx.check("classes_", classes == seen, "classes_:%s:not-sorted-training-labels" % name, "classes_ is not the sorted set of training labels", classes=[str(c) for c in classes],
              expected=[str(c) for c in seen])
    ctx.check("proba.shape", P.shape == (len(Xte), len(seen)), "proba:%s:shape" % name, "predict_proba shape is not (n_instances, n_classes)", shape=list(P.shape), expected=[len(Xte), len(seen)])
    if P.shape != (len(Xte), len(seen)):
        return
    ctx.check("proba.range", bool(np.all(P >= -1e-12) and np.all(P <= 1 + 1e-12)), "proba:%s:outside-unit-interval" % name, "probability outside [0, 1]", min=float(P.min()), max=float(P.max()))
    ctx.check("proba.rowsum", bool(np.allclose(P.sum(axis=1), 1.0, atol=1e-9)), "proba:%s:rows-do-not-sum-to-one" % name, "probability rows do not sum to 1", sums=P.sum(axis=1)[:5].tolist())
    pred = np.asarray(pred)
    okl = all(any(p == c for c in seen) for p in pred.tolist())
    ctx.check("predict.label-type", okl and len(pred) == len(Xte), "predict:%s:not-a-training-label" % name, "predict returned something that is not a training label (value or type)",
              got=[repr(p) for p in pred.tolist()[:5]], labels=[repr(c) for c in seen])
    if okl:
        col = {c: i for i, c in enumerate(classes)}
        good = all(P[i, col[p]] >= P[i].max() - 1e-12 for i, p in enumerate(pred.tolist()))
        ctx.check("predict.argmax", good, "predict:%s:label-does-not-attain-max-probability" % name, "a predicted label does not attain the maximal predicted probability",
                  first=next(({"row": i, "pred": repr(p), "proba": P[i].tolist()} for i, p in enumerate(pred.tolist()) if P[i, col[p]] < P[i].max() - 1e-12), None))
    # columns are ordered like classes_: on the (well separated) training data the column of the true label must carry the mass;
    # flagged only when some other column order explains the training labels far better than the declared one
    okt, Ptr = ctx.call("predict_proba:exception:" + name, clf.predict_proba, X)
    if okt and len(seen) <= 5:
        import itertools
        Ptr = np.asarray(Ptr, dtype=float)
        true_col = np.array([classes.index(v) for v in np.asarray(y).tolist()])
        acc_id = float(np.mean(Ptr.argmax(axis=1) == true_col))
        best = max(float(np.mean(np.array(perm)[Ptr.argmax(axis=1)] == true_col)) for perm in itertools.permutations(range(len(seen))))
        ctx.check("classes_", not (acc_id < 0.5 and best >= 0.9), "proba:%s:columns-not-ordered-like-classes_" % name,
                  "probability columns are not ordered like classes_ (another column order explains the training labels)", accuracy_declared_order=acc_id, accuracy_best_order=best)
    # vote recount for the BOSS ensembles: every member's vote goes to the column of the label it predicts, weighted by the member's weight
    if name in ("boss", "cboss") and hasattr(clf, "classifiers"):
        weights = list(getattr(clf, "weights", [])) if name == "cboss" else [1.0] * len(clf.classifiers)
        if len(weights) == len(clf.classifiers) and weights:
            exp = np.zeros_like(P)
            okv = True
            for wgt, member in zip(weights, clf.classifiers):
                okm, mp = ctx.call("member-predict:exception:" + name, member.predict, np.array([[np.asarray(Xte.iloc[i, 0], dtype=float)] for i in range(len(Xte))]))
                if not okm:
                    okv = False
                    break
                for i, lab in enumerate(np.asarray(mp).tolist()):
                    exp[i, classes.index(lab)] += wgt
            if okv:
                exp = exp / float(np.sum(weights))
                ctx.check("votes", np.allclose(P, exp, atol=1e-12), "proba:%s:not-the-weighted-member-votes-per-class" % name,
                          "probabilities are not the members' votes counted in the column of the predicted label (normalised by the ensemble weight)",
                          got=P[0].tolist(), expected=exp[0].tolist())
    ok, sc = ctx.call("score:exception:" + name, clf.score, Xte, yte)
    if ok:
        tie = any(np.sum(np.isclose(P[i], P[i].max(), atol=1e-12)) > 1 for i in range(len(P)))
        if tie:
            ctx.ambiguous += 1     # a random tie-break may differ between the two predict calls
        else:
            ctx.check("score", abs(float(sc) - float(np.mean(pred == np.asarray(yte)))) < 1e-12, "score:%s:not-fraction-of-matches" % name, "score is not the fraction of predictions that match",
                      score=float(sc), expected=float(np.mean(pred == np.asarray(yte))))
        if not tie:
            # ... for any vector of true labels: every second true label is a near miss of the prediction (a string that merely starts
            # with the predicted label / the next integer), so the expected score is the share of the others
            sample = pred.tolist()[0]
            if isinstance(sample, str):
                y_adv = [p if i % 2 else p + "0" for i, p in enumerate(pred.tolist())]
            elif isinstance(sample, (int, np.integer)) and not isinstance(sample, (bool, np.bool_)):
                y_adv = [p if i % 2 else p + 1 for i, p in enumerate(pred.tolist())]
            else:
                y_adv = None
            if y_adv is not None:
                want = float(np.mean([i % 2 == 1 for i in range(len(y_adv))]))
                for form, yy in (("array", np.array(y_adv)), ("series", pd.Series(y_adv, index=range(5, 5 + len(y_adv))))):
                    ok2, sc2 = ctx.call("score:exception:" + name, clf.score, Xte, yy)
                    if ok2:
                        ctx.check("score", abs(float(sc2) - want) < 1e-12, "score:%s:not-fraction-of-matches" % name, "score is not the fraction of predictions that match (near-miss true labels)",
                                  score=float(sc2), expected=want, y_form=form, example=[repr(v) for v in y_adv[:4]], predictions=[repr(v) for v in pred.tolist()[:4]])
    ctx.event(clf=name, labels=[str(v) for v in seen], proba_first=P[0].tolist(), pred_first=repr(pred[0]))
    ctx.tag("clf:" + name)
    if len(set(pred.tolist())) >= 2 or np.any((P > 1e-9) & (P < 1 - 1e-9)):
        ctx.nontrivial = True


def _tsf(case, ctx):
    import sktime.classification.interval_based._tsf as C
    import sktime.regression.interval_based._tsf as R
    import sktime.series_as_features.base.estimators.interval_based._tsf as B
    rng = np.random.default_rng([case["dseed"], 1718])
    ni, nt = case["ni"], case["nt"]
    X, cidx, A = pzoo.make_panel(rng, ni, 1, nt, classes=case["classes"])
    Xte, _, Ate = pzoo.make_panel(rng, 7, 1, nt, classes=case["classes"])
    if case.get("values") in ("int-nested", "int-array", "int16-array"):
        # integer-typed panels (counts): the features are still real-valued means / deviations / slopes.  Narrow integer types
        # (sensor counts stored as int16) with values in the thousands: products with the time index exceed the type's range
        Ai, Atei = np.round(A * 10).astype(np.int64), np.round(Ate * 10).astype(np.int64)
        if case["values"] == "int16-array":
            Ai, Atei = np.round(A * 1000).astype(np.int16), np.round(Ate * 1000).astype(np.int16)
        if case["values"] in ("int-array", "int16-array"):
            X, Xte = Ai, Atei
        else:
            X = pd.DataFrame({"dim_0": [pd.Series(Ai[i, 0]) for i in range(ni)]})
            Xte = pd.DataFrame({"dim_0": [pd.Series(Atei[i, 0]) for i in range(len(Atei))]})
        ctx.tag("tsf:integer-panel")
    rec = []
    orig = B._transform

    def spy(Xa, intervals):
        out = orig(Xa, intervals)
        rec.append((np.array(Xa, copy=True), np.array(intervals, copy=True), np.array(out, copy=True)))
        return out
    mods = [B, C, R]
    for m in mods:
        m._transform = spy
    try:
        if case["which"] == "clf":
            est = C.TimeSeriesForestClassifier(n_estimators=case["n_estimators"], min_interval=case["min_interval"], random_state=case["eseed"], n_jobs=case["n_jobs"])
            y = np.array(["c%d" % v for v in cidx])
        else:
            est = R.TimeSeriesForestRegressor(n_estimators=case["n_estimators"], min_interval=case["min_interval"], random_state=case["eseed"], n_jobs=case["n_jobs"])
            y = cidx + rng.normal(0, 0.2, ni)
        from joblib import parallel_backend
        with parallel_backend("threading"):
            ok, _ = ctx.call("tsf:fit-exception", est.fit, X, y)
            if not ok:
                return
            nfit = len(rec)
            out = est.predict_proba(Xte) if case["which"] == "clf" else est.predict(Xte)
    finally:
        for m in mods:
            m._transform = orig
    out = np.asarray(out, dtype=float)
    ivs = est.intervals_
    ctx.check("tsf.features", len(ivs) == case["n_estimators"] and all(np.asarray(iv).shape[1] == 2 and np.all(np.asarray(iv)[:, 0] >= 0) and np.all(np.asarray(iv)[:, 1] <= nt)
              and np.all(np.asarray(iv)[:, 1] - np.asarray(iv)[:, 0] >= min(case["min_interval"], nt)) for iv in ivs), "tsf:fitted-intervals-malformed",
              "fitted intervals are not one valid set per tree inside the series with at least min_interval points", intervals=np.asarray(ivs[0]).tolist())
    # features of each recorded call equal mean / std / slope of the recorded intervals
    for Xa, iv, feats in rec:
        exp = np.zeros((Xa.shape[0], 3 * len(iv)))
        for j, (s, e) in enumerate(iv):
            seg = Xa[:, s:e].astype(float)
            exp[:, 3 * j] = seg.mean(axis=1)
            exp[:, 3 * j + 1] = np.sqrt(((seg - seg.mean(axis=1, keepdims=True)) ** 2).mean(axis=1))
            t = np.arange(seg.shape[1], dtype=float)
            exp[:, 3 * j + 2] = [np.polyfit(t, row, 1)[0] if seg.shape[1] > 1 else 0.0 for row in seg]
        ctx.check("tsf.features", feats.shape == exp.shape and np.allclose(feats, exp, rtol=2e-4, atol=2e-4 * (1 + np.abs(exp).max())), "tsf:features-not-mean-std-slope-of-intervals",
                  "tree features are not mean / standard deviation / slope of the fitted intervals", shape=list(feats.shape), expected_shape=list(exp.shape),
                  got=feats[0][:6].tolist(), expected=exp[0][:6].tolist(), intervals=iv.tolist()[:3])
    pred_calls = rec[nfit:]
    ctx.check("tsf.average-of-trees" if case["which"] == "clf" else "tsfreg.average-of-trees", len(pred_calls) == case["n_estimators"], "tsf:predict-does-not-use-every-tree-once",
              "prediction did not transform the data once per tree", calls=len(pred_calls), trees=case["n_estimators"])
    if len(pred_calls) == case["n_estimators"]:
        # match recorded feature sets to trees by their intervals, recompute the forest output from the fitted trees
        acc = []
        for k, tree in enumerate(est.estimators_):
            match = [f for (_, iv, f) in pred_calls if np.array_equal(iv, np.asarray(ivs[k]))]
            if not match:
                ctx.check("tsf.features", False, "tsf:tree-not-applied-to-its-own-intervals", "a tree was not applied to features of its own fitted intervals", tree=k)
                return
            acc.append(tree.predict_proba(match[0]) if case["which"] == "clf" else tree.predict(match[0]))
        exp = np.mean(acc, axis=0)
        if case["which"] == "clf":
            ctx.check("tsf.average-of-trees", out.shape == exp.shape and np.allclose(out, exp, atol=1e-12), "tsf:proba-not-average-of-tree-outputs",
                      "forest probabilities are not the average of its trees' probabilities on their interval features", got=out[0].tolist(), expected=exp[0].tolist())
            ctx.seen("tsfreg.average-of-trees", 0)
        else:
            ctx.check("tsfreg.average-of-trees", out.shape == exp.shape and np.allclose(out, exp, atol=1e-12), "tsfreg:prediction-not-average-of-tree-outputs",
                      "forest regressor predictions are not the average of its trees' predictions", got=out[:4].tolist(), expected=exp[:4].tolist())
            ctx.seen("tsf.average-of-trees", 0)
    ctx.event(kind="tsf", which=case["which"], n_estimators=case["n_estimators"], nt=nt, transform_calls=len(rec))
    ctx.nontrivial = case["n_estimators"] >= 2


def _colens(case, ctx):
    from sktime.classification.compose import ColumnEnsembleClassifier
    from sktime.classification.interval_based import TimeSeriesForestClassifier
    rng = np.random.default_rng([case["dseed"], 1719])
    nc = case["nc"]
    X, cidx, _ = pzoo.make_panel(rng, case["ni"], nc, case["nt"], classes=case["classes"])
    Xte, _, _ = pzoo.make_panel(rng, 6, nc, case["nt"], classes=case["classes"])
    if case.get("names") == "unsorted":
        # column labels that are neither positions nor sorted: selection by name and by position must not be confused
        names = ["v%d" % v for v in rng.permutation(nc)]
        X.columns, Xte.columns = names, list(names)
    y = np.array(["k%d" % v for v in cidx])
    cols = [int(v) for v in rng.choice(nc, size=case["members"], replace=False)]
    mk = lambda i: TimeSeriesForestClassifier(n_estimators=3, random_state=case["eseed"] + i)  # noqa

    def colspec(c, form):
        if form == "int":
            return c
        if form == "name":
            return X.columns[c]
        if form == "names":
            return [X.columns[c]]
        if form == "slice":
            return slice(c, c + 1)
        if form == "mask":
            return [j == c for j in range(nc)]
        if form == "callable":
            return lambda Z, c=c: [c]
        if form == "array":
            return np.array([c])                      # integer position array (position 0 is a position like any other)
        if form == "mask-array":
            return np.array([j == c for j in range(nc)])
        if form == "callable-array":
            return lambda Z, c=c: np.array([c])
        return [c]
    forms = case.get("forms") or ["list"] * len(cols)
    members = [("m%d" % i, mk(i), colspec(c, forms[i % len(forms)])) for i, c in enumerate(cols)]
    live = [(i, c) for i, c in enumerate(cols)]           # (seed offset, column) of the members that must vote, in order
    # members that must not vote: 'drop' entries and empty column selections, at arbitrary positions
    free = [c for c in range(nc) if c not in cols]
    for j, (what, where) in enumerate(case.get("skipped") or []):
        empty = [[], np.array([], dtype=int), np.zeros(nc, dtype=bool)][(case["dseed"] + j) % 3]      # the empty selection as list, index array or all-False mask
        entry = ("s%d" % j, "drop", [free[j % len(free)]] if free else [cols[0]]) if what == "drop" else ("s%d" % j, mk(50 + j), empty)
        members.insert(min(where, len(members)), entry)
    kw = {}
    used = set(cols) | {e[2][0] for e in members if e[1] == "drop" and e[2]}
    rest = [c for c in range(nc) if c not in used]
    if case.get("remainder") and len(rest) == 1:
        kw["remainder"] = mk(90)
        live.append((90, rest[0]))
    ce = ColumnEnsembleClassifier(members, **kw)
    ok, _ = ctx.call("colens:fit-exception", ce.fit, X, y)
    if not ok:
        return
    ok, P = ctx.call("colens:predict_proba-exception", ce.predict_proba, Xte)
    if not ok:
        return
    # independent members fitted on their own columns with integer-encoded labels
    enc = {c: i for i, c in enumerate(sorted(set(y.tolist())))}
    yi = np.array([enc[v] for v in y])
    probs = []
    for i, c in live:
        m = mk(i).fit(X.iloc[:, [c]], yi)
        probs.append(m.predict_proba(Xte.iloc[:, [c]]))
    exp = np.mean(probs, axis=0)
    ctx.check("column-ensemble.average", np.asarray(P).shape == exp.shape and np.allclose(P, exp, atol=1e-12), "colens:proba-not-average-of-members-on-own-columns",
              "column ensemble probabilities are not the average of its members' probabilities on their own columns", got=np.asarray(P)[0].tolist(), expected=exp[0].tolist(),
              columns=cols, forms=forms, skipped=case.get("skipped"), remainder=bool(kw))
    # a second call and a call on reordered instances see the same members on the same columns
    ok, P2 = ctx.call("colens:predict_proba-exception", ce.predict_proba, Xte.iloc[::-1].reset_index(drop=True))
    if ok:
        ctx.check("column-ensemble.average", np.allclose(np.asarray(P2)[::-1], exp, atol=1e-12), "colens:proba-not-average-of-members-on-own-columns",
                  "column ensemble probabilities on reordered instances are not the members' average", columns=cols)
    pred = ce.predict(Xte)
    ctx.check("column-ensemble.average", list(np.asarray(ce.classes_)) == sorted(set(y.tolist())) and all(p in enc for p in pred.tolist()), "colens:classes-or-labels-wrong",
              "column ensemble classes_ / predicted labels are not the training labels")
    ctx.event(kind="colens", columns=cols, forms=forms, skipped=case.get("skipped"), remainder=bool(kw), classes=sorted(enc))
    ctx.tag("colens:skipped=%d" % len(case.get("skipped") or []))
    ctx.tag("colens:remainder=%s" % bool(kw))
    for f in forms[:len(cols)]:
        ctx.tag("colens:columns-as-" + f)
    ctx.nontrivial = len(live) >= 2
