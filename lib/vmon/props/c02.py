"""C02 - forecasting-horizon conversions are exact, order-preserving and mutually inverse.

Reference: Python int set arithmetic.  The class invariant (icontract) and the conversion
postconditions of vmon.contracts are evaluated as well (and in every other forecasting
workload)."""
import itertools

import numpy as np
import pandas as pd

PID = "C02"
LEVEL = "exploration"
RULE = ("cases = (step set, container type, order, relative/absolute, cutoff) enumerated over all subsets of a small "
        "integer range crossed with a fixed cutoff list, plus seeded random large sets and the rejection classes "
        "(duplicates, fractional, unsupported types); non-trivial: horizon with >= 2 steps straddling or touching 0, "
        "or given unsorted, or a rejection class; distinct = distinct case dict")
ANCHOR_FILES = ["sktime/forecasting/base/_fh.py", "sktime/utils/datetime.py", "sktime/utils/validation/forecasting.py"]
REQUIRED_REACH = ["_fh.py:_check_values", "_fh.py:ForecastingHorizon.to_relative", "_fh.py:ForecastingHorizon.to_absolute",
                  "_fh.py:ForecastingHorizon.to_indexer", "_fh.py:ForecastingHorizon._is_in_sample",
                  "forecasting.py:check_fh"]
REQUIRED_MONITORS = ["stored", "to_absolute", "roundtrip", "abs.to_relative", "partition", "predicates", "indexer",
                     "reject", "contract:fh.invariant", "contract:fh.to_absolute"]
NOT_COVERED = ["non-integer pd.Index objects as offending input (the layer's pd.Int64Index alias accepts any pd.Index)",
               "datetime / period horizons"]
ASSUMPTIONS = ["reference = Python int arithmetic on the step set"]
JOBS = {"quick": 4, "thorough": 16}
CUTOFFS = [-7, -1, 0, 3, 50]
CONTS = ["list", "array32", "array64", "index", "range", "int"]


def cases(tier, seed):
    lo, hi, size = (-4, 5, 4) if tier == "quick" else (-6, 7, 5)
    universe = list(range(lo, hi + 1))
    i = 0
    for k in range(1, size + 1):
        for sub in itertools.combinations(universe, k):
            i += 1
            for rel in (True, False):
                cont = CONTS[i % 5]
                if cont == "range" and not (len(sub) == 1 or len(set(np.diff(sub))) == 1):
                    cont = "list"
                if len(sub) == 1 and i % 3 == 0:
                    cont = "int"
                order = i % 3  # 0 sorted, 1 reversed, 2 rotated
                yield {"kind": "algebra", "steps": list(sub), "cont": cont, "order": order, "rel": rel,
                       "cutoffs": CUTOFFS, "np_cutoff": i % 2 == 0}
    rng = np.random.default_rng([seed, 2])
    nrand = 1500 if tier == "quick" else 150000
    for _ in range(nrand):
        k = int(rng.integers(1, 12))
        mag = int(rng.choice([10, 1000, 10 ** 6]))
        steps = sorted(set(int(x) for x in rng.integers(-mag, mag + 1, size=k)))
        yield {"kind": "algebra", "steps": steps, "cont": CONTS[int(rng.integers(0, 4))], "order": int(rng.integers(0, 3)),
               "rel": bool(rng.random() < 0.5), "cutoffs": [int(x) for x in rng.integers(-mag, mag, size=3)],
               "np_cutoff": bool(rng.random() < 0.5)}
    # rejection classes
    bad = [
        ("dup-list", "dup"), ("dup-array", "dup"), ("frac-list", "frac"), ("frac-array", "frac"), ("str", "type"),
        ("tuple", "type"), ("set", "type"), ("none", "type"), ("series", "type"), ("array2d", "type"), ("nan", "frac"),
        ("strlist", "type"), ("float-scalar", "type"), ("dict", "type"), ("nonbool-relative", "type"),
        ("dup-index", "dup"), ("dup-index-sorted", "dup"), ("empty-check_fh", "empty"), ("abs-enforce-relative", "relative"),
        # time-like values are no steps: a relative horizon (the default, and what check_fh makes of raw input) refuses them
        ("period-relative", "type"), ("datetime-relative", "type"), ("timedelta", "type"), ("categorical", "type"), ("multiindex", "type"),
        ("time-scalar", "type"),
    ]
    reps = 3 if tier == "quick" else 100
    for r in range(reps):
        for name, cls in bad:
            yield {"kind": "reject", "name": name, "cls": cls, "salt": r, "base": [int(x) for x in rng.integers(-5, 9, size=3)]}
    # cache behaviour: equal-valued distinct objects and repeated calls
    for r in range(20 if tier == "quick" else 2000):
        steps = sorted(set(int(x) for x in rng.integers(-6, 12, size=4)))
        yield {"kind": "cache", "steps": steps, "cutoffs": [int(x) for x in rng.integers(-20, 60, size=4)]}


def _container(steps, cont):
    if cont == "list":
        return list(steps)
    if cont == "array32":
        return np.array(steps, dtype=np.int32)
    if cont == "array64":
        return np.array(steps, dtype=np.int64)
    if cont == "index":
        return pd.Index(steps, dtype="int64")
    if cont == "range":
        step = steps[1] - steps[0] if len(steps) > 1 else 1
        return pd.RangeIndex(steps[0], steps[-1] + (1 if step > 0 else -1), step)
    if cont == "int":
        return int(steps[0])
    raise ValueError(cont)


def _ints(x):
    return [int(v) for v in (x.to_pandas() if hasattr(x, "to_pandas") else x)]


def run_case(case, ctx):
    from sktime.forecasting.base import ForecastingHorizon as FH
    from sktime.utils.validation.forecasting import check_fh

    kind = case["kind"]
    if kind == "reject":
        return _run_reject(case, ctx, FH, check_fh)
    if kind == "cache":
        return _run_cache(case, ctx, FH)
    steps = case["steps"]
    given = list(steps)
    if case["order"] == 1:
        given = given[::-1]
    elif case["order"] == 2 and len(given) > 1:
        given = given[1:] + given[:1]
    cont = case["cont"]
    if cont == "range":
        # a range index can also run downwards: same step set, given in descending order
        given = list(steps) if case["order"] != 1 else list(steps)[::-1]
    arg = _container(given, cont)
    ok, fh = ctx.call("construct:valid-input-rejected", FH, arg, is_relative=case["rel"])
    if not ok:
        return
    S = sorted(steps)
    ctx.check("stored", _ints(fh) == S, "stored:not-sorted-set-of-input", "stored values differ from the sorted input",
              given=given, stored=_ints(fh))
    ctx.check("stored", len(fh) == len(S) and fh.is_relative == case["rel"], "stored:len-or-flag", "len/is_relative wrong")
    # the same collection entering through the validation function every forecaster / splitter uses
    ok2, fh2 = ctx.call("check_fh:valid-input-rejected", check_fh, _container(given, cont) if case["rel"] else FH(_container(given, cont), is_relative=False))
    if ok2:
        ctx.check("stored", isinstance(fh2, FH) and _ints(fh2) == S and fh2.is_relative == case["rel"], "stored:check_fh:not-sorted-set-of-input",
                  "check_fh does not return the horizon of the given steps", given=given, container=cont, stored=_ints(fh2) if isinstance(fh2, FH) else repr(fh2)[:60])
    ok, fh2 = ctx.call("check_fh:valid-input-rejected", check_fh, fh)
    for ci, c in enumerate(case["cutoffs"]):
        cc = np.int64(c) if case["np_cutoff"] else int(c)
        if ci % 2 == 0 and hasattr(fh, "to_absolute_int"):
            # positions counted from another origin (used by the trend forecaster); asked first, so that everything below runs on a
            # horizon object that has already answered it
            start = c - 7 - ci
            # the origin as a plain int or as the numpy integer an index hands out (y.index[0] of an integer index)
            start_arg = [start, np.int64(start), np.int32(start), pd.Index([start], dtype="int64")[0]][(ci // 2 + len(S)) % 4] if abs(start) < 2 ** 31 else start
            ok, ai_ = ctx.call("to_absolute_int:exception", fh.to_absolute_int, start_arg, cc)
            if ok:
                want = [(c + s_ if case["rel"] else s_) - start for s_ in S]
                ctx.check("to_absolute", _ints(ai_) == want, "to_absolute_int:not-absolute-minus-start", "to_absolute_int(start, cutoff) != absolute steps - start", got=_ints(ai_), expected=want)
            ctx.check("stored", _ints(fh) == S, "stored:changed-by-a-conversion", "a conversion changed the horizon's own values", stored=_ints(fh), expected=S)
        if case["rel"]:
            rel = S
            ok, a = ctx.call("to_absolute:exception", fh.to_absolute, cc)
            if not ok:
                continue
            ctx.check("to_absolute", _ints(a) == [c + s for s in S] and a.is_relative is False,
                      "to_absolute:not-cutoff-plus-steps", "to_absolute(cutoff) != cutoff + steps", steps=S, cutoff=c, got=_ints(a))
            ok, r = ctx.call("to_relative:exception", a.to_relative, cc)
            if ok:
                ctx.check("roundtrip", _ints(r) == S and r.is_relative is True, "roundtrip:abs-then-rel-not-identity",
                          "to_absolute(c).to_relative(c) != steps", steps=S, cutoff=c, got=_ints(r))
            ok, r0 = ctx.call("to_relative:exception", fh.to_relative, cc)
            if ok:
                ctx.check("roundtrip", _ints(r0) == S, "roundtrip:relative-to_relative-changed", "relative.to_relative changed values")
            target = fh
        else:
            rel = [s - c for s in S]
            ok, r = ctx.call("to_relative:exception", fh.to_relative, cc)
            if not ok:
                continue
            ctx.check("abs.to_relative", _ints(r) == rel and r.is_relative is True, "to_relative:not-values-minus-cutoff",
                      "absolute.to_relative(cutoff) != values - cutoff", values=S, cutoff=c, got=_ints(r))
            ok, a = ctx.call("to_absolute:exception", r.to_absolute, cc)
            if ok:
                ctx.check("roundtrip", _ints(a) == S and a.is_relative is False, "roundtrip:rel-then-abs-not-identity",
                          "to_relative(c).to_absolute(c) != values", values=S, cutoff=c, got=_ints(a))
            target = fh
        ins = [v for v, r_ in zip(S, rel) if r_ <= 0]
        oos = [v for v, r_ in zip(S, rel) if r_ > 0]
        ok1, i_ = ctx.call("to_in_sample:exception", target.to_in_sample, cc)
        ok2, o_ = ctx.call("to_out_of_sample:exception", target.to_out_of_sample, cc)
        if ok1 and ok2:
            ctx.check("partition", _ints(i_) == ins and _ints(o_) == oos, "partition:not-at-step-zero",
                      "in-/out-of-sample parts are not the partition at step 0 (steps <= 0 in-sample)", rel=rel,
                      in_sample=_ints(i_), out_of_sample=_ints(o_))
            ctx.check("partition", i_.is_relative == target.is_relative and o_.is_relative == target.is_relative,
                      "partition:relative-flag-changed", "parts changed the is_relative flag")
        ok1, ai = ctx.call("is_all_in_sample:exception", target.is_all_in_sample, cc)
        ok2, ao = ctx.call("is_all_out_of_sample:exception", target.is_all_out_of_sample, cc)
        if ok1 and ok2:
            ctx.check("predicates", bool(ai) == (len(oos) == 0) and bool(ao) == (len(ins) == 0),
                      "predicates:disagree-with-partition", "all-in/all-out predicates disagree with the partition",
                      rel=rel, all_in=bool(ai), all_out=bool(ao))
        ok, ix = ctx.call("to_indexer:exception", target.to_indexer, cc)
        if ok:
            ctx.check("indexer", [int(v) for v in ix] == [r_ - 1 for r_ in rel], "indexer:not-steps-minus-one",
                      "to_indexer(cutoff) != steps - 1", rel=rel, got=[int(v) for v in ix], is_relative=case["rel"])
        ok, ix2 = ctx.call("to_indexer:exception", target.to_indexer, cc, from_cutoff=False)
        if ok:
            ctx.check("indexer", _ints(ix2) == [r_ - rel[0] for r_ in rel], "indexer:from-first-wrong",
                      "to_indexer(from_cutoff=False) != steps - first step", rel=rel, got=_ints(ix2))
    ctx.check("stored", _ints(fh) == S, "stored:changed-by-a-conversion", "a conversion changed the horizon's own values", stored=_ints(fh), expected=S)
    ctx.event(steps=S, cont=cont, rel=case["rel"], given=given)
    relall = S if case["rel"] else [s - case["cutoffs"][0] for s in S]
    if len(S) >= 2 and (min(relall) <= 0 < max(relall) or 0 in relall or given != S):
        ctx.nontrivial = True


def _run_reject(case, ctx, FH, check_fh):
    b = sorted(set(case["base"])) or [1]
    name = case["name"]
    rel = case["salt"] % 2 == 0
    builders = {
        "dup-list": lambda: FH(b + [b[0]], is_relative=rel),
        "dup-array": lambda: FH(np.array(b + [b[-1]]), is_relative=rel),
        "dup-index": lambda: FH(pd.Index(b + [b[0]]), is_relative=rel),
        # an index that is already in increasing order, with a repeated step (the last, the first or a middle one)
        "dup-index-sorted": lambda: FH(pd.Index(sorted(b + [b[case["salt"] % len(b)]]), dtype="int64"), is_relative=rel),
        "frac-list": lambda: FH([b[0] + 0.5] + [float(x) for x in b[1:]], is_relative=rel),
        "frac-array": lambda: FH(np.array(b, dtype=float) + 0.25, is_relative=rel),
        "nan": lambda: FH([float("nan")] + [float(x) for x in b], is_relative=rel),
        "str": lambda: FH("abc", is_relative=rel),
        "strlist": lambda: FH(["a", "b"], is_relative=rel),
        "tuple": lambda: FH(tuple(b), is_relative=rel),
        "set": lambda: FH(set(b), is_relative=rel),
        "none": lambda: FH(None, is_relative=rel),
        "series": lambda: FH(pd.Series(b), is_relative=rel),
        "array2d": lambda: FH(np.array([b, b]), is_relative=rel),
        "float-scalar": lambda: FH(1.5, is_relative=rel),
        "dict": lambda: FH({1: 2}, is_relative=rel),
        "nonbool-relative": lambda: FH(b, is_relative=[1, "yes", None, 0][case["salt"] % 4]),
        "empty-check_fh": lambda: check_fh([np.array([], dtype=int), [], pd.Index([], dtype="int64")][case["salt"] % 3]),
        "abs-enforce-relative": lambda: check_fh(FH(b, is_relative=False), enforce_relative=True),
        "period-relative": lambda: [lambda v: FH(v, is_relative=True), lambda v: FH(v), check_fh][case["salt"] % 3](
            pd.period_range("2000-01", periods=len(b), freq=["M", "D", "Q"][case["salt"] % 3])),
        "datetime-relative": lambda: [lambda v: FH(v, is_relative=True), lambda v: FH(v), check_fh][case["salt"] % 3](
            pd.date_range("2000-01-01", periods=len(b), freq=["D", "MS", "H"][case["salt"] % 3])),
        "timedelta": lambda: FH(pd.timedelta_range("1D", periods=len(b)), is_relative=rel),
        "categorical": lambda: FH(pd.CategoricalIndex(b), is_relative=rel),
        "multiindex": lambda: FH(pd.MultiIndex.from_tuples([(x, x + 1) for x in b]), is_relative=rel),
        "time-scalar": lambda: FH([pd.Period("2000-01", freq="M"), pd.Timestamp("2000-01-01"), np.datetime64("2000-01-01")][case["salt"] % 3], is_relative=rel),
    }
    try:
        out = builders[name]()
    except (ValueError, TypeError) as e:
        ctx.check("reject", True, "")
        ctx.event(rejected=name, by=type(e).__name__)
    except Exception as e:  # noqa
        ctx.check("reject", False, "reject:wrong-exception-type:" + name,
                  "%s raised %s instead of ValueError/TypeError" % (name, type(e).__name__), error=repr(e)[:200])
    else:
        ctx.check("reject", False, "reject:accepted:" + name, "malformed horizon %s was accepted/coerced" % name,
                  result=repr(out)[:200])
    # valid twin is accepted
    ok, _ = ctx.call("reject:valid-twin-rejected", FH, b, is_relative=rel)
    ctx.nontrivial = True


def _run_cache(case, ctx, FH):
    S = case["steps"]
    a, b = FH(list(S)), FH(np.array(S))
    for c in case["cutoffs"] + case["cutoffs"][::-1]:
        for fh in (a, b, a):
            r = fh.to_absolute(c)
            ctx.check("to_absolute", _ints(r) == [c + s for s in S], "cache:stale-to_absolute",
                      "repeated/cached to_absolute returned another cutoff's result", cutoff=c, got=_ints(r))
            ab = r.to_relative(c)
            ctx.check("roundtrip", _ints(ab) == S, "cache:stale-to_relative", "cached to_relative wrong", cutoff=c, got=_ints(ab))
    # one ABSOLUTE horizon object asked under changing cutoffs (the same object kept across updates of a forecaster): every answer is for the
    # cutoff of that call - relative form, indexer, in-sample / out-of-sample parts and predicates
    ax, bx = FH(list(S), is_relative=False), FH(pd.Index(S, dtype="int64"), is_relative=False)
    for c in case["cutoffs"] + case["cutoffs"][::-1]:
        for fh in (ax, bx, ax):
            rel = [v - c for v in S]
            ctx.check("roundtrip", _ints(fh.to_relative(c)) == rel, "cache:absolute-horizon:stale-to_relative", "to_relative(cutoff) of a reused absolute horizon answered for another cutoff",
                      cutoff=c, got=_ints(fh.to_relative(c)), expected=rel)
            ctx.check("roundtrip", _ints(fh.to_absolute(c)) == S, "cache:absolute-horizon:to_absolute-changed", "to_absolute of an absolute horizon is not itself", cutoff=c)
            ctx.check("partition", _ints(fh.to_in_sample(c).to_relative(c)) == [v for v in rel if v <= 0] and _ints(fh.to_out_of_sample(c).to_relative(c)) == [v for v in rel if v > 0],
                      "cache:absolute-horizon:stale-partition", "in-sample / out-of-sample parts of a reused absolute horizon are those of another cutoff", cutoff=c)
            ctx.check("predicates", bool(fh.is_all_in_sample(c)) == all(v <= 0 for v in rel) and bool(fh.is_all_out_of_sample(c)) == all(v > 0 for v in rel),
                      "cache:absolute-horizon:stale-predicates", "all-in-sample / all-out-of-sample of a reused absolute horizon are those of another cutoff", cutoff=c)
            ctx.check("indexer", _ints(fh.to_indexer(c)) == [v - 1 for v in rel], "cache:absolute-horizon:stale-indexer", "indexer of a reused absolute horizon is that of another cutoff", cutoff=c)
    ctx.nontrivial = len(S) > 1
