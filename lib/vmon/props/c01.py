"""C01 - temporal CV splitters never leak the future and tile the series as documented.

Reference-model monitor: an independent integer-arithmetic specification of the four
splitters and of temporal_train_test_split is compared with what the real generators
yield, on exhaustive small scopes plus random large configurations."""
import itertools
import math

import numpy as np
import pandas as pd

PID = "C01"
LEVEL = "exploration"
RULE = ("cases = (splitter kind, n, window/initial/step lengths, fh set, start mode, input container) enumerated "
        "exhaustively inside the small scope given under coverage.scope plus seeded random large configurations; "
        "a case is non-trivial when the reference yields >= 2 splits and at least one of: step > 1, gapped fh, "
        "initial_window given, start_with_window=False, truncated window (or, for temporal_train_test_split, "
        "both parts non-empty); distinct = distinct case dict")
ANCHOR_FILES = ["sktime/forecasting/model_selection/_split.py", "sktime/utils/validation/forecasting.py",
                "sktime/utils/validation/__init__.py"]
REQUIRED_REACH = ["_split.py:_get_end", "_split.py:BaseWindowSplitter._get_start",
                  "_split.py:SlidingWindowSplitter._split_windows", "_split.py:ExpandingWindowSplitter._split_windows",
                  "_split.py:CutoffSplitter._split", "_split.py:SingleWindowSplitter._split",
                  "_split.py:_check_window_lengths", "_split.py:_split_by_fh", "_split.py:BaseWindowSplitter.get_cutoffs"]
REQUIRED_MONITORS = ["split.sequence", "split.invariants", "n_splits", "cutoffs", "tts.partition", "tts.fh"]
NOT_COVERED = ["in-sample horizons (outside the quantifier)", "datetime / period indices"]
ASSUMPTIONS = ["reference model c01._ref_* written from the property statement and class docstrings"]
JOBS = {"quick": 4, "thorough": 16}
EXHAUSTIVE = {"quick": False, "thorough": False}
SCOPE = {
    "quick": dict(nmax=14, wlmax=6, stepmax=5, fhmax=5, fhsize=3, nrandom=2000, cut_n=10),
    "thorough": dict(nmax=22, wlmax=9, stepmax=7, fhmax=7, fhsize=4, nrandom=40000, cut_n=12),
}


def _fh_sets(fhmax, size):
    out = []
    for k in range(1, size + 1):
        out.extend(list(c) for c in itertools.combinations(range(1, fhmax + 1), k))
    return out


def cases(tier, seed):
    sc = SCOPE[tier]
    fhs = _fh_sets(sc["fhmax"], sc["fhsize"])
    conts = ["series", "index", "array", "series_int_index"]
    i = 0
    for n in range(1, sc["nmax"] + 1):
        for fh in fhs:
            for wl in range(1, sc["wlmax"] + 1):
                for step in range(1, sc["stepmax"] + 1):
                    for sww in (True, False):
                        i += 1
                        yield {"kind": "sliding", "n": n, "wl": wl, "step": step, "fh": fh, "sww": sww, "iw": None,
                               "cont": conts[i % 4], "off": (i * 7) % 23 - 5}
                        yield {"kind": "expanding", "n": n, "wl": wl, "step": step, "fh": fh, "sww": sww, "iw": None,
                               "cont": conts[(i + 1) % 4], "off": (i * 5) % 19 - 3}
                    # sliding with initial window (must be > wl)
                    for iw in range(wl, min(wl + 4, sc["wlmax"] + 2) + 1):
                        yield {"kind": "sliding", "n": n, "wl": wl, "step": step, "fh": fh, "sww": True, "iw": iw,
                               "cont": conts[(i + iw) % 4], "off": 0}
                yield {"kind": "single", "n": n, "wl": wl, "fh": fh, "cont": conts[(i + 2) % 4], "off": (i * 3) % 11}
            yield {"kind": "single", "n": n, "wl": None, "fh": fh, "cont": "series", "off": 0}
    # cutoff splitters: all cutoff subsets of size <= 3 for small n
    for n in range(2, sc["cut_n"] + 1):
        for k in (1, 2, 3):
            for cs in itertools.combinations(range(0, n), k):
                for fh in ([1], [2], [1, 3], [2, 3]):
                    for wl in (1, 3, n):
                        for order in (0, 1):
                            c = list(cs) if order == 0 else list(reversed(cs))
                            if order == 1 and k == 1:
                                continue
                            yield {"kind": "cutoff", "n": n, "cutoffs": c, "wl": wl, "fh": fh,
                                   "cont": conts[(n + k) % 4], "off": 0, "ctype": "array" if (n + k + wl) % 2 else "index"}
    # temporal_train_test_split: exhaustive int sizes for small n, grid of floats
    for n in range(2, sc["nmax"] + 3):
        for ts in [None] + list(range(1, n)):
            for tr in [None] + list(range(1, n)):
                if ts is not None and tr is not None and ts + tr > n:
                    continue
                yield {"kind": "tts", "n": n, "test_size": ts, "train_size": tr, "withX": (n + (ts or 0)) % 2 == 0,
                       "off": (n * 3) % 7 - 2}
        for ts in (0.1, 0.25, 0.5, 0.34, 0.75):
            for tr in (None, 0.2, 0.5):
                if tr is not None and ts + tr > 1:
                    continue
                yield {"kind": "tts", "n": n, "test_size": ts, "train_size": tr, "withX": False, "off": 0}
        for fh in fhs:
            if max(fh) < n:
                yield {"kind": "tts_fh", "n": n, "fh": fh, "rel": True, "withX": (n + len(fh)) % 2 == 0,
                       "off": (n * 5) % 9 - 4, "fhtype": ["list", "array", "FH"][(n + fh[0]) % 3]}
                yield {"kind": "tts_fh", "n": n, "fh": fh, "rel": False, "withX": (n + len(fh)) % 2 == 1,
                       "off": (n * 5) % 9 - 4, "fhtype": "FH"}
    # random large configurations
    rng = np.random.default_rng([seed, 1])
    for _ in range(sc["nrandom"]):
        n = int(rng.integers(5, 400))
        k = int(rng.integers(1, 5))
        hm = int(rng.integers(1, max(2, min(40, n // 2))))
        fh = sorted(set(int(x) for x in rng.integers(1, hm + 1, size=k)))
        wl = int(rng.integers(1, max(2, n - max(fh) + 3)))
        step = int(rng.integers(1, 30))
        kind = ["sliding", "expanding", "single", "cutoff", "sliding_iw"][int(rng.integers(0, 5))]
        cont = conts[int(rng.integers(0, 4))]
        off = int(rng.integers(-1000, 100000))
        if kind == "cutoff":
            kk = int(rng.integers(1, 6))
            hi = max(1, n - max(fh) + int(rng.integers(0, 2)))
            cs = [int(x) for x in rng.choice(np.arange(0, hi), size=min(kk, hi), replace=False)]
            if rng.random() < 0.15:
                cs.insert(int(rng.integers(0, len(cs) + 1)), cs[int(rng.integers(0, len(cs)))])     # a cutoff listed twice: yielded twice, counted twice
            yield {"kind": "cutoff", "n": n, "cutoffs": cs, "wl": wl, "fh": fh, "cont": cont, "off": off,
                   "ctype": "array" if rng.random() < 0.5 else "index"}
        elif kind == "single":
            yield {"kind": "single", "n": n, "wl": wl if rng.random() < 0.8 else None, "fh": fh, "cont": cont, "off": off}
        elif kind == "sliding_iw":
            iw = wl + int(rng.integers(1, 20))
            yield {"kind": "sliding", "n": n, "wl": wl, "step": step, "fh": fh, "sww": True, "iw": iw, "cont": cont, "off": off}
        else:
            yield {"kind": kind, "n": n, "wl": wl, "step": step, "fh": fh, "sww": bool(rng.random() < 0.6), "iw": None,
                   "cont": cont, "off": off}


# ---------------------------------------------------------------------------------
# reference model
# ---------------------------------------------------------------------------------
def _ref_window(kind, n, wl, step, fh, sww, iw):
    """Returns ('invalid'|'nofit'|'ok', [(train_list, test_list, cutoff)])."""
    hmax = max(fh)
    if iw is not None and (not sww or iw <= wl):
        return "invalid", []
    fits = wl + hmax <= n and (iw is None or iw + hmax <= n)
    last = n - 1 - hmax
    if iw is not None:
        c0 = iw - 1
    elif sww:
        c0 = wl - 1
    else:
        c0 = -1
    out = []
    first = True
    c = c0
    while c <= last:
        if kind == "expanding":
            lo = 0
        elif iw is not None and first:
            lo = 0
        else:
            lo = max(0, c - wl + 1)
        out.append((list(range(lo, c + 1)), [c + h for h in fh], c))
        first = False
        c += step
    return ("ok" if fits else "nofit"), out


def _make_y(n, cont, off):
    if cont == "series":
        return pd.Series(np.arange(n, dtype=float), index=pd.RangeIndex(off, off + n))
    if cont == "series_int_index":
        return pd.Series(np.arange(n, dtype=float), index=pd.Index(np.arange(off, off + n)))
    if cont == "index":
        return pd.RangeIndex(off, off + n)
    return np.arange(off, off + n)


def _split_invariants(ctx, tr, te, n, fh, where):
    """Per-split safety invariants; returns cutoff (or -1 for an empty window)."""
    tr = [int(x) for x in tr]
    te = [int(x) for x in te]
    c = tr[-1] if tr else -1
    ok = True
    ok &= ctx.check("split.invariants", tr == list(range(tr[0], tr[0] + len(tr))) if tr else True,
                    "split:train-not-contiguous", "training window not contiguous/ordered", train=tr, where=where)
    ok &= ctx.check("split.invariants", all(0 <= x < n for x in tr) and all(0 <= x < n for x in te),
                    "split:position-outside-series", "a yielded position lies outside the series", train=tr, test=te, n=n,
                    where=where)
    ok &= ctx.check("split.invariants", (not tr) or (not te) or max(tr) < min(te),
                    "split:train-at-or-after-test", "training position at or after a test position", train=tr, test=te,
                    where=where)
    return c, ok


def run_case(case, ctx):
    kind = case["kind"]
    if kind in ("tts", "tts_fh"):
        return _run_tts(case, ctx)
    from sktime.forecasting.model_selection import (CutoffSplitter, ExpandingWindowSplitter, SingleWindowSplitter,
                                                    SlidingWindowSplitter)

    n, fh = case["n"], case["fh"]
    y = _make_y(n, case["cont"], case["off"])
    hmax = max(fh)
    fh_arg = fh[0] if len(fh) == 1 and (n + fh[0]) % 2 == 0 else (np.array(fh) if n % 2 else list(fh))
    # the other containers a horizon may arrive in: integer index, range index (equally spaced steps, also with step > 1), horizon object
    pick = (n + sum(fh) + (case.get("wl") or 0)) % 6
    equally_spaced = len(fh) >= 2 and len(set(np.diff(fh).tolist())) == 1
    if pick == 3:
        fh_arg = pd.Index(fh, dtype="int64")
    elif pick == 4 and equally_spaced:
        fh_arg = pd.RangeIndex(fh[0], fh[-1] + 1, fh[1] - fh[0])
    elif pick == 5:
        from sktime.forecasting.base import ForecastingHorizon
        fh_arg = ForecastingHorizon(pd.RangeIndex(fh[0], fh[-1] + 1, fh[1] - fh[0])) if equally_spaced and n % 2 else ForecastingHorizon(list(fh))
    # window / step / initial lengths as Python ints or as the numpy integers a parameter sweep over np.arange hands out
    NI = (lambda v: v) if (n + hmax) % 3 else (lambda v: None if v is None else [np.int64, np.int32, np.int64][(n + hmax) % 3 + (v % 2)](v))
    if kind in ("sliding", "expanding"):
        wl, step, sww, iw = case["wl"], case["step"], case["sww"], case["iw"]
        status, ref = _ref_window(kind, n, wl, step, fh, sww, iw)
        if kind == "sliding":
            cv = SlidingWindowSplitter(fh=fh_arg, window_length=NI(wl), step_length=NI(step), initial_window=NI(iw), start_with_window=sww)
        else:
            cv = ExpandingWindowSplitter(fh=fh_arg, initial_window=NI(wl), step_length=NI(step), start_with_window=sww)
    elif kind == "single":
        wl = case["wl"]
        c = n - 1 - hmax
        if c < 0:
            status, ref = "nofit", []
        else:
            lo = 0 if wl is None else max(0, c - wl + 1)
            status = "ok" if (wl is None or wl + hmax <= n) else "nofit"
            ref = [(list(range(lo, c + 1)), [c + h for h in fh], c)]
        cv = SingleWindowSplitter(fh=fh_arg, window_length=NI(wl))
    else:
        wl = case["wl"]
        cs = sorted(case["cutoffs"])
        feasible = all(0 <= c and c + hmax <= n - 1 for c in cs)
        status = "ok" if feasible else "infeasible"
        ref = [(list(range(max(0, c - wl + 1), c + 1)), [c + h for h in fh], c) for c in cs]
        if status == "ok" and any(c - wl + 1 < 0 for c in cs):
            status = "truncated"
        carg = np.array(case["cutoffs"]) if case["ctype"] == "array" else pd.Index(case["cutoffs"])
        cv = CutoffSplitter(carg, fh=fh_arg, window_length=NI(wl))

    # ---- drive the real generator ------------------------------------------------
    got, err = [], None
    try:
        for tr, te in cv.split(y):
            got.append((np.asarray(tr).tolist(), np.asarray(te).tolist()))
            if len(got) > 5 * n + 10:
                break
    except (ValueError,) as e:
        err = e
    ctx.tag(kind + ":" + status)

    if status == "invalid":
        ctx.check("config.rejected", err is not None, "split:invalid-config-accepted",
                  "initial_window <= window_length or start_with_window=False with initial_window was accepted", case=case)
        return
    if status == "infeasible":
        # a cutoff whose test window leaves the series: must be rejected, never yielded
        ctx.check("cutoff.infeasible-rejected", err is not None, "cutoff:test-window-outside-series-accepted",
                  "CutoffSplitter yielded splits although max(cutoff)+max(fh) > n-1", n=n, cutoffs=case["cutoffs"], fh=fh,
                  got=got[:3])
        ctx.nontrivial = True
        return
    if status == "nofit":
        # window does not fit: ValueError or (truncated / empty) splits obeying the safety invariants
        if err is None:
            for tr, te in got:
                c, _ = _split_invariants(ctx, tr, te, n, fh, "nofit")
                if tr:
                    ctx.check("split.invariants", te == [c + h for h in fh], "split:test-not-cutoff-plus-fh",
                              "test window is not cutoff + fh", train=tr, test=te, fh=fh)
        return
    # status ok / truncated: the reference splits are required
    if err is not None:
        ctx.check("split.sequence", False, "split:valid-config-rejected:" + kind,
                  "a feasible configuration was rejected: %s" % err, case=case)
        return
    ctx.check("split.sequence", len(got) == len(ref), "split:wrong-number-of-splits:" + kind,
              "number of yielded splits differs from the reference", got=len(got), expected=len(ref),
              got_cutoffs=[(g[0][-1] if g[0] else -1) for g in got][:12], expected_cutoffs=[r[2] for r in ref][:12])
    for j, ((tr, te), (rtr, rte, rc)) in enumerate(zip(got, ref)):
        c, ok = _split_invariants(ctx, tr, te, n, fh, j)
        good = ctx.check("split.sequence", tr == rtr and te == rte, "split:window-differs-from-reference:" + kind,
                         "split %d differs from the documented tiling" % j, split=j, train=tr, test=te,
                         expected_train=rtr, expected_test=rte)
        if not good:
            break
    if len(got) == len(ref) and got:
        ctx.event(kind=kind, n=n, n_splits=len(got), first=got[0], last=got[-1])

    # ---- reported counts / cutoffs equal those yielded --------------------------------
    yielded_cutoffs = [(g[0][-1] if g[0] else -1) for g in got]
    ok, ns = ctx.call("n_splits:exception", cv.get_n_splits, y)
    if ok:
        ctx.check("n_splits", ns == len(got), "report:n_splits-differs-from-yielded:" + kind,
                  "get_n_splits differs from the number of yielded splits", reported=ns, yielded=len(got))
    ok, cu = ctx.call("cutoffs:exception", cv.get_cutoffs, y)
    if ok:
        ctx.check("cutoffs", [int(x) for x in np.asarray(cu)] == yielded_cutoffs,
                  "report:cutoffs-differ-from-yielded:" + kind, "get_cutoffs differs from the cutoffs of the yielded splits",
                  reported=np.asarray(cu).tolist()[:12], yielded=yielded_cutoffs[:12])
    # ---- a splitter is asked more than once: the same splits again, the caller's cutoff array as it was --------------------------------
    again, err2 = [], None
    try:
        again = [(np.asarray(tr).tolist(), np.asarray(te).tolist()) for tr, te in cv.split(y)]
    except Exception as e:  # noqa
        err2 = e
    ctx.check("split.sequence", err2 is None and again == got, "split:second-pass-over-the-same-splitter-differs:" + kind,
              "splitting the same series a second time with the same splitter object gives other splits", first=[g[0][-1] if g[0] else -1 for g in got][:8],
              second=[g[0][-1] if g[0] else -1 for g in again][:8], error=repr(err2)[:100] if err2 else None)
    if kind == "cutoff":
        ctx.check("split.sequence", [int(v) for v in np.asarray(carg)] == [int(v) for v in case["cutoffs"]], "split:cutoff-array-of-the-caller-changed",
                  "the cutoffs array handed to the splitter was modified", now=[int(v) for v in np.asarray(carg)], given=case["cutoffs"])
    # ---- ... also after its step length was changed: the splits are those of the current setting ---------------------------------------
    if kind in ("sliding", "expanding") and case.get("iw") is None and len(got) >= 2:
        step2 = case["step"] + 1 + (n + wl) % 2
        st2, ref2 = _ref_window(kind, n, wl, step2, fh, case["sww"], None)
        cv.step_length = step2
        try:
            got2 = [(np.asarray(tr).tolist(), np.asarray(te).tolist()) for tr, te in cv.split(y)]
            rep2 = [int(v) for v in np.asarray(cv.get_cutoffs(y))]
        except Exception as e:  # noqa
            got2, rep2 = repr(e)[:100], None
        if st2 in ("ok", "truncated"):
            ctx.check("split.sequence", got2 == [(r[0], r[1]) for r in ref2], "split:after-changing-step_length-not-the-splits-of-the-new-setting:" + kind,
                      "after assigning another step_length the splitter does not yield the splits of that setting", new_step=step2,
                      got=[(g[0][-1] if g[0] else -1) for g in got2][:8] if isinstance(got2, list) else got2, expected=[r[2] for r in ref2][:8])
            ctx.check("cutoffs", rep2 == [r[2] for r in ref2], "report:after-changing-step_length:cutoffs-differ:" + kind, "get_cutoffs after assigning another step_length", reported=rep2)
    gapped = list(fh) != list(range(fh[0], fh[0] + len(fh))) or fh[0] != 1
    if len(ref) >= 2 and (case.get("step", 1) > 1 or gapped or case.get("iw") is not None
                          or case.get("sww") is False or status == "truncated" or kind == "cutoff"):
        ctx.nontrivial = True


def _run_tts(case, ctx):
    from sktime.forecasting.base import ForecastingHorizon
    from sktime.forecasting.model_selection import temporal_train_test_split

    n, off = case["n"], case["off"]
    y = pd.Series(1000.0 + np.arange(n), index=pd.RangeIndex(off, off + n))
    X = pd.DataFrame({"a": 2000.0 + np.arange(n), "b": 3000.0 + np.arange(n)}, index=y.index) if case["withX"] else None
    if case["kind"] == "tts":
        ts, tr = case["test_size"], case["train_size"]
        # sizes as documented by scikit-learn (the docstring delegates to it)
        def size(v, which):
            if v is None:
                return None
            if isinstance(v, float):
                return math.ceil(v * n) if which == "test" else math.floor(v * n)
            return v
        nt, ntr = size(ts, "test"), size(tr, "train")
        if nt is None and ntr is None:
            nt = math.ceil(0.25 * n)
        if ntr is None:
            ntr = n - nt
        if nt is None:
            nt = n - ntr
        feasible = ntr >= 1 and nt >= 1 and ntr + nt <= n
        try:
            out = temporal_train_test_split(y, X, test_size=ts, train_size=tr) if X is not None else \
                temporal_train_test_split(y, test_size=ts, train_size=tr)
        except ValueError as e:
            ctx.check("tts.partition", not feasible, "tts:valid-sizes-rejected", "feasible sizes rejected: %s" % e, case=case)
            return
        if not feasible:
            return
        ytr, yte = out[0], out[1]
        ctx.check("tts.partition", list(ytr.index) == list(y.index[:ntr]) and list(ytr.values) == list(y.values[:ntr]),
                  "tts:train-not-prefix", "training part is not the first n_train observations in order",
                  got=list(ytr.index)[:10], n_train=ntr)
        ctx.check("tts.partition", list(yte.index) == list(y.index[ntr:ntr + nt]) and list(yte.values) == list(y.values[ntr:ntr + nt]),
                  "tts:test-not-following-block", "test part is not the n_test observations that follow the training part",
                  got=list(yte.index)[:10], expected=list(y.index[ntr:ntr + nt])[:10])
        if X is not None:
            Xtr, Xte = out[2], out[3]
            ctx.check("tts.partition", Xtr.index.equals(ytr.index) and Xte.index.equals(yte.index)
                      and np.array_equal(Xtr.values, X.values[:ntr]) and np.array_equal(Xte.values, X.values[ntr:ntr + nt]),
                      "tts:X-not-split-like-y", "exogenous data split differently from the target")
        ctx.event(kind="tts", n=n, train=[int(ytr.index[0]), int(ytr.index[-1])], test=[int(yte.index[0]), int(yte.index[-1])])
        ctx.nontrivial = True
        return
    fh = case["fh"]
    hmax = max(fh)
    if case["rel"]:
        cutoff_pos = n - 1 - hmax
        fharg = {"list": list(fh), "array": np.array(fh), "FH": ForecastingHorizon(fh, is_relative=True)}[case["fhtype"]]
        exp_test = [off + cutoff_pos + h for h in fh]
    else:
        # absolute: the labels of the last positions cutoff+fh
        cutoff_pos = n - 1 - hmax
        labels = [off + cutoff_pos + h for h in fh]
        fharg = ForecastingHorizon(labels, is_relative=False)
        exp_test = labels
        cutoff_pos = (labels[0] - off) - 1
    try:
        out = temporal_train_test_split(y, X, fh=fharg) if X is not None else temporal_train_test_split(y, fh=fharg)
    except Exception as e:  # noqa
        ctx.check("tts.fh", False, "tts-fh:valid-horizon-rejected", "valid fh rejected: %r" % e, case=case)
        return
    ytr, yte = out[0], out[1]
    ctx.check("tts.fh", list(ytr.index) == list(y.index[:cutoff_pos + 1]) and list(ytr.values) == list(y.values[:cutoff_pos + 1]),
              "tts-fh:train-not-prefix-to-cutoff", "training part does not end at the cutoff", got=list(ytr.index)[-3:],
              cutoff=off + cutoff_pos)
    ctx.check("tts.fh", list(yte.index) == exp_test and list(yte.values) == [1000.0 + (t - off) for t in exp_test],
              "tts-fh:test-not-cutoff-plus-fh", "y_test is not indexed by cutoff + fh", got=list(yte.index), expected=exp_test)
    if X is not None:
        Xtr, Xte = out[2], out[3]
        ctx.check("tts.fh", Xtr.index.equals(ytr.index) and (len(Xte) == 0 or (Xte.index.min() > ytr.index.max() if len(ytr) else True)),
                  "tts-fh:X-train-misaligned", "X_train not aligned with y_train or X_test overlaps the training period")
        ctx.check("tts.fh", set(yte.index) <= set(Xte.index), "tts-fh:X-test-misses-test-points",
                  "X_test lacks rows for test time points", x_test=list(Xte.index), y_test=list(yte.index))
    ctx.event(kind="tts_fh", n=n, fh=fh, rel=case["rel"], train_end=int(ytr.index[-1]) if len(ytr) else None, test=list(yte.index))
    ctx.nontrivial = len(ytr) > 0
