"""C04 - every estimator obeys the scikit-learn protocol: parameters, clone, fitted state.

Direct protocol driver over all estimator classes discoverable under the compatibility layer
(module walk) + nested-parameter reference on generated compositions + the `fit` contracts
that are active in every other check."""
import importlib
import inspect
import pkgutil

import numpy as np
import pandas as pd

from vmon import zoo

PID = "C04"
LEVEL = "exploration"
RULE = ("cases = (estimator class x constructor-argument assignment) for storage / set_params / clone / unknown-parameter checks; "
        "(runnable estimator class) for fitted-state checks (fresh, fitted, cloned-from-fitted; every public apply-type method before fit); "
        "(generated composition) for nested get/set and component replacement; non-trivial: class with >= 1 constructor parameter or a "
        "composition of depth >= 2; distinct = distinct case dict")
ANCHOR_FILES = ["sktime/base/*.py", "sktime/exceptions.py", "sktime/forecasting/base/*.py", "sktime/transformations/base.py", "sktime/classification/base.py",
                "sktime/forecasting/compose/*.py", "sktime/forecasting/model_selection/_tune.py", "sktime/classification/compose/_column_ensemble.py",
                "sktime/series_as_features/compose/_pipeline.py", "sktime/transformations/series/detrend/*.py"]
REQUIRED_REACH = ["_base.py:BaseEstimator.check_is_fitted", "_meta.py:_HeterogenousMetaEstimator._get_params", "_meta.py:_HeterogenousMetaEstimator._set_params",
                  "_meta.py:_HeterogenousMetaEstimator._replace_estimator", "_tune.py:BaseGridSearch.check_is_fitted"]
REQUIRED_MONITORS = ["storage", "set_params-roundtrip", "clone", "unknown-param", "fresh-not-fitted", "unfitted-call", "fit.returns-self", "fit.sets-is_fitted",
                     "fit.params-unchanged", "clone-of-fitted", "nested.get", "nested.set", "nested.replace"]
NOT_COVERED = ["classes in modules that cannot be imported in the sandbox (constructor contract would need static analysis: outside this technique family)",
               "estimators that cannot be fitted here (WEASEL, TDE, Rocket, MiniRocket, shapelet transforms, MatrixProfile, HCrystalBall): only their constructor contract is checked"]
ASSUMPTIONS = ["scikit-learn's NotFittedError is accepted besides sktime's for estimators that inherit scikit-learn forests"]
JOBS = {"quick": 8, "thorough": 16}
CASE_TIMEOUT = {"quick": 180.0, "thorough": 300.0}
SKIP_MODULES = (".tests", "setup", "contrib", "_testing", "__check_build", "_build_utils", "benchmarking.evaluation")
NOT_FITTABLE = {"WEASEL", "TemporalDictionaryEnsemble", "IndividualTDE", "Rocket", "MiniRocket", "MiniRocketMultivariate", "ShapeletTransform",
                "ContractedShapeletTransform", "MatrixProfile", "HCrystalBallForecaster"}
_classes = None


def discover():
    global _classes
    if _classes is not None:
        return _classes
    import sktime
    from sktime.base import BaseEstimator
    out = {}
    for m in pkgutil.walk_packages(sktime.__path__, "sktime."):
        if any(p in m.name for p in SKIP_MODULES):
            continue
        try:
            mod = importlib.import_module(m.name)
        except BaseException:  # noqa
            continue
        for cn, c in inspect.getmembers(mod, inspect.isclass):
            if issubclass(c, BaseEstimator) and c.__module__.startswith("sktime") and not cn.startswith("_") and not cn.startswith("Base"):
                out[cn] = c
    _classes = dict(sorted(out.items()))
    return _classes


def kind_of(c):
    from sktime.classification.base import BaseClassifier
    from sktime.forecasting.base import BaseForecaster
    from sktime.regression.base import BaseRegressor
    from sktime.transformations.base import (BaseTransformer, _PanelToPanelTransformer, _PanelToTabularTransformer, _SeriesToPrimitivesTransformer,
                                             _SeriesToSeriesTransformer)
    for k, b in (("forecaster", BaseForecaster), ("classifier", BaseClassifier), ("regressor", BaseRegressor), ("s2s", _SeriesToSeriesTransformer),
                 ("s2p", _SeriesToPrimitivesTransformer), ("p2p", _PanelToPanelTransformer), ("p2t", _PanelToTabularTransformer), ("transformer", BaseTransformer)):
        if issubclass(c, b):
            return k
    return "other"


def required_args(name):
    """valid values for constructor parameters without default / small fast settings for fitting"""
    from sklearn.linear_model import LinearRegression
    from sklearn.preprocessing import StandardScaler
    from sktime.forecasting.model_selection import SlidingWindowSplitter
    from sktime.forecasting.naive import NaiveForecaster
    from sktime.forecasting.trend import PolynomialTrendForecaster
    from sktime.transformations.series.boxcox import LogTransformer
    from sktime.transformations.series.detrend import Detrender
    from sktime.transformations.series.summarize import MeanTransformer
    N, P = NaiveForecaster, PolynomialTrendForecaster
    members = lambda: [("a", N()), ("b", P())]  # noqa
    cv = lambda: SlidingWindowSplitter(fh=[1], window_length=10, step_length=5)  # noqa
    sq = zoo.build_regressor
    T = {
        "EnsembleForecaster": {"forecasters": members()}, "MultiplexForecaster": {"forecasters": members(), "selected_forecaster": "a"},
        "OnlineEnsembleForecaster": {"forecasters": members()}, "StackingForecaster": {"forecasters": members(), "final_regressor": LinearRegression()},
        "TransformedTargetForecaster": {"steps": [("t", Detrender(P())), ("f", N())]},
        # the grids exclude the wrapped forecaster's own configuration, so a winner written back into it is visible
        "ForecastingGridSearchCV": {"forecaster": N(), "cv": cv(), "param_grid": {"strategy": ["drift", "mean"]}},
        "ForecastingRandomizedSearchCV": {"forecaster": N(), "cv": cv(), "param_distributions": {"strategy": ["drift", "mean"]}, "n_iter": 2, "random_state": 0},
        "TabularToSeriesAdaptor": {"transformer": StandardScaler()}, "OptionalPassthrough": {"transformer": LogTransformer()},
        "SeriesToPrimitivesRowTransformer": {"transformer": MeanTransformer()}, "SeriesToSeriesRowTransformer": {"transformer": LogTransformer()},
        "TSInterpolator": {"length": 7}, "FittedParamExtractor": {"forecaster": N(), "param_names": ["window_length"]},
        "HCrystalBallForecaster": {"model": LinearRegression()},
    }
    for s in ("DirRec", "Direct", "Multioutput", "Recursive"):
        T[s + "TabularRegressionForecaster"] = {"estimator": sq("rawlin" if s == "Multioutput" else "lin"), "window_length": 3}
        T[s + "TimeSeriesRegressionForecaster"] = {"estimator": sq("rawlin" if s == "Multioutput" else "lin"), "window_length": 3}
    if name in ("TSCStrategy", "TSRStrategy"):
        from sktime.classification.interval_based import TimeSeriesForestClassifier
        from sktime.regression.interval_based import TimeSeriesForestRegressor
        return {"estimator": TimeSeriesForestClassifier(n_estimators=2) if name == "TSCStrategy" else TimeSeriesForestRegressor(n_estimators=2)}
    if name == "ColumnEnsembleClassifier":
        from sktime.classification.interval_based import TimeSeriesForestClassifier
        return {"estimators": [("tsf", TimeSeriesForestClassifier(n_estimators=2, random_state=0), [0])]}
    if name == "FeatureUnion":
        from sktime.transformations.panel.compose import ColumnConcatenator
        from sktime.transformations.panel.dictionary_based import PAA
        return {"transformer_list": [("a", PAA(num_intervals=2)), ("b", ColumnConcatenator())]}
    if name == "ColumnTransformer":
        from sktime.transformations.panel.dictionary_based import PAA
        return {"transformers": [("a", PAA(num_intervals=2), [0])]}
    return T.get(name, {})


FAST = {"TimeSeriesForestClassifier": {"n_estimators": 3}, "TimeSeriesForestRegressor": {"n_estimators": 3}, "RandomIntervalSpectralForest": {"n_estimators": 3},
        "SupervisedTimeSeriesForest": {"n_estimators": 3}, "ComposableTimeSeriesForestClassifier": {"n_estimators": 3},
        "ComposableTimeSeriesForestRegressor": {"n_estimators": 3}, "BOSSEnsemble": {"max_ensemble_size": 3}, "ContractableBOSS": {"n_parameter_samples": 4, "max_ensemble_size": 2},
        "PCATransformer": {"n_components": 2}, "PAA": {"num_intervals": 3}, "SlopeTransformer": {"num_intervals": 3}, "IntervalSegmenter": {"intervals": 3},
        "SFA": {"word_length": 4, "window_size": 6}, "SAX": {"word_length": 4, "window_size": 6}, "Deseasonalizer": {"sp": 2}, "ConditionalDeseasonalizer": {"sp": 2},
        "HampelFilter": {"window_length": 5}, "ThetaForecaster": {"sp": 1}, "AutoETS": {"auto": False}, "MUSE": {"window_inc": 4}}


OPTION_POOL = {"strategy": ["mean", "drift", "update"], "aggfunc": ["median", "min"], "model": ["multiplicative"], "method": ["mean", "linear", "nearest", "drift"],
               "trend": ["add"], "with_intercept": [False], "deseasonalize": [False], "return_nan": [False], "fill_value": [0.0], "refit": [False], "sp": [4], "window_length": [4],
               "return_numpy": [False], "numerosity_reduction": [False], "norm": [True], "igb": [True], "anova": [True], "bigrams": [True], "save_words": [True],
               "remember_data": [False], "passthrough": [True], "n_jobs": [1], "acf_lag": [5], "min_interval": [4], "n_intervals": [3, "log", "sqrt"]}


def variants(name):
    cls = discover()[name]
    try:
        sig = inspect.signature(cls.__init__)
    except (TypeError, ValueError):
        return []
    out = []
    for pn, prm in sig.parameters.items():
        if pn == "self" or prm.kind in (prm.VAR_KEYWORD, prm.VAR_POSITIONAL):
            continue
        if isinstance(prm.default, bool):
            out.append((pn, not prm.default))
        for v in OPTION_POOL.get(pn, []):
            if not isinstance(prm.default, bool) and v != prm.default and (pn, v) not in out:
                out.append((pn, v))
    return out


def cases(tier, seed):
    names = list(discover())
    nassign = 3 if tier == "quick" else 20
    for n in names:
        for a in range(nassign):
            yield {"kind": "params", "cls": n, "assignment": a}
    for n in names:
        yield {"kind": "state", "cls": n, "dseed": seed}
        # the same protocol under non-default configurations: every boolean flag flipped, every known option value
        for k, v in variants(n):
            yield {"kind": "state", "cls": n, "dseed": seed, "variant": [k, v]}
    rng = np.random.default_rng([seed, 4])
    for i in range(60 if tier == "quick" else 4000):
        spec = None
        for _ in range(30):
            spec = zoo.random_spec(rng, depth=3 if i % 2 else 2)
            if zoo.children(spec):
                break
        yield {"kind": "nested", "spec": spec, "pick": int(rng.integers(0, 10 ** 6))}
    # heterogeneous meta-estimators over (name, estimator, columns) triples, with entries that are the string 'drop'
    for i in range(40 if tier == "quick" else 4000):
        k = int(rng.integers(2, 5))
        yield {"kind": "nested-columns", "which": ["colens", "coltrans"][i % 2], "entries": ["drop" if rng.random() < 0.3 else "est" for _ in range(k)],
               "ops": [[["replace", "drop", "set", "undrop"][int(rng.integers(0, 4))], int(rng.integers(0, k))] for _ in range(int(rng.integers(1, 5)))]}


def _same(a, b):
    if a is b:
        return True
    try:
        if isinstance(a, (np.ndarray, pd.Series, pd.DataFrame)) or isinstance(b, (np.ndarray, pd.Series, pd.DataFrame)):
            return type(a) is type(b) and np.array_equal(np.asarray(a), np.asarray(b))
        if isinstance(a, float) and isinstance(b, float) and a != a and b != b:
            return True
        if type(a) is type(b) and type(a).__eq__ is object.__eq__ and hasattr(a, "__dict__"):
            # plain configuration objects without value equality (e.g. splitters): compare their attributes
            return repr(sorted(vars(a).items())) == repr(sorted(vars(b).items()))
        return type(a) is type(b) and bool(a == b)
    except Exception:  # noqa
        return False


NONE_HINTS = {"bounds": (0, 2), "n_jobs": 2, "random_state": 7, "window_length": 4, "min_length": 3, "max_length": 9, "initial_window": 12, "lower": 1,
              "upper": 5, "pad_length": 30, "missing_values": -1, "pre_dispatch": "n_jobs", "max_depth": 3, "time_contract_in_mins": 1, "sp": 3,
              "initial_level": 0.5, "n_lags": 3, "typed_dict": True, "length": 9, "max_features": 2, "max_leaf_nodes": 8, "max_samples": 5}


def _gen_value(name, default, a, pos):
    """a value of the default's type that differs from the default (storage is what is tested, not meaning).
    assignment 1: small / boundary values (0 for positive ints); assignment 2: numpy scalar flavours and values for None defaults;
    assignment >= 3: shifted values"""
    if default is None:
        return NONE_HINTS.get(name) if a == 2 else None
    if isinstance(default, bool):
        return (not default) if (a + pos) % 2 else default
    if isinstance(default, (int, np.integer)):
        if a == 1:
            return 0 if default >= 1 else int(default)
        if a == 2:
            return np.int64(int(default) + 2)
        return int(default) + 1 + (a + pos) % 3 if default > 0 else int(default)
    if isinstance(default, float):
        if a == 2 and default == default:
            return np.float64(default * 0.5 + 0.125)
        return float(default) * (0.5 + 0.25 * ((a + pos) % 3)) if default == default and default not in (0.0,) else default
    if isinstance(default, (list, tuple)):
        return type(default)(default)
    if isinstance(default, str) and a != 2:
        # another option where one is known, otherwise an arbitrary other string: a constructor stores, fit validates
        # (constructors that do validate reject it and are retried with the default, see _construct)
        alt = [v for v in OPTION_POOL.get(name, []) if isinstance(v, str) and v != default]
        return alt[(a + pos) % len(alt)] if alt and a % 2 else default + "_other"
    return default


def run_case(case, ctx):
    import warnings
    warnings.simplefilter("ignore")
    if case["kind"] == "params":
        return _params(case, ctx)
    if case["kind"] == "state":
        return _state(case, ctx)
    if case["kind"] == "nested-columns":
        return _nested_columns(case, ctx)
    return _nested(case, ctx)


def _nested_columns(case, ctx):
    """column ensembles / column transformers: names address components, the column specification stays with its name, 'drop' entries keep their place"""
    from sktime.classification.interval_based import TimeSeriesForestClassifier
    from sktime.transformations.panel.dictionary_based import PAA
    colens = case["which"] == "colens"
    if colens:
        from sktime.classification.compose import ColumnEnsembleClassifier as Meta
        mk = lambda j: TimeSeriesForestClassifier(n_estimators=2 + j)  # noqa
        attr, pname = "estimators", "n_estimators"
    else:
        from sktime.transformations.panel.compose import ColumnTransformer as Meta
        mk = lambda j: PAA(num_intervals=2 + j)  # noqa
        attr, pname = "transformers", "num_intervals"
    model = [["e%d" % j, ("drop" if e == "drop" else mk(j)), [j]] for j, e in enumerate(case["entries"])]     # reference model of the list
    ok, est = ctx.call("nested-columns:construct-exception:" + case["which"], lambda: Meta([tuple(t) for t in model]))
    if not ok:
        return

    def agree(where):
        got = list(getattr(est, attr))
        good = len(got) == len(model) and all(g[0] == m[0] and (g[1] is m[1] or (isinstance(m[1], str) and g[1] == m[1])) and list(g[2]) == list(m[2]) for g, m in zip(got, model))
        ctx.check("nested.replace", good, "nested-columns:%s:list-differs-from-model" % case["which"],
                  "after %s the (name, estimator, columns) list is not what the calls by name describe" % where,
                  got=[(g[0], type(g[1]).__name__ if not isinstance(g[1], str) else g[1], list(g[2])) for g in got],
                  expected=[(m[0], type(m[1]).__name__ if not isinstance(m[1], str) else m[1], list(m[2])) for m in model])
        ok, deep = ctx.call("nested-columns:get_params-exception:" + case["which"], est.get_params, deep=True)
        if ok:
            for m in model:
                listed = m[0] in deep and (deep[m[0]] is m[1] or (isinstance(m[1], str) and deep[m[0]] == m[1]))
                ctx.check("nested.get", listed, "nested-columns:%s:component-not-listed-under-its-name" % case["which"], "get_params(deep=True) does not list every component under its name",
                          name=m[0], dropped=isinstance(m[1], str), where=where)
                if not isinstance(m[1], str):
                    key = "%s__%s" % (m[0], pname)
                    ctx.check("nested.get", key in deep and deep[key] == getattr(m[1], pname), "nested-columns:%s:component-parameter-missing-or-wrong" % case["which"],
                              "component__param does not read the component's parameter", path=key, where=where)
        return good
    if not agree("construction"):
        return
    for n_op, (op, j) in enumerate(case["ops"]):
        name = model[j][0]
        if op == "replace" or (op == "undrop" and not isinstance(model[j][1], str)) or (op == "set" and isinstance(model[j][1], str)):
            new = mk(10 + n_op)
            ok, _ = ctx.call("nested-columns:replace-exception:" + case["which"], est.set_params, **{name: new})
            if ok:
                model[j][1] = new
        elif op == "drop":
            ok, _ = ctx.call("nested-columns:replace-exception:" + case["which"], est.set_params, **{name: "drop"})
            if ok:
                model[j][1] = "drop"
        elif op == "undrop":
            new = mk(20 + n_op)
            ok, _ = ctx.call("nested-columns:replace-exception:" + case["which"], est.set_params, **{name: new})
            if ok:
                model[j][1] = new
        else:  # set a nested parameter
            v = 30 + n_op
            ok, _ = ctx.call("nested-columns:set_params-exception:" + case["which"], est.set_params, **{"%s__%s" % (name, pname): v})
            if ok:
                ctx.check("nested.set", getattr(model[j][1], pname) == v, "nested-columns:%s:component-parameter-not-written" % case["which"], "component__param did not write the component's parameter",
                          name=name)
        if not ok or not agree("%s of %s (call %d)" % (op, name, n_op)):
            return
    ctx.event(kind="nested-columns", which=case["which"], entries=case["entries"], ops=case["ops"])
    ctx.tag("nested-columns:" + case["which"])
    ctx.nontrivial = True


def _construct(cls, name, a):
    sig = inspect.signature(cls.__init__)
    req = required_args(name)
    if req is None:
        return None, None
    kw = {}
    for pos, p in enumerate(sig.parameters.values()):
        if p.name == "self" or p.kind in (p.VAR_KEYWORD, p.VAR_POSITIONAL):
            continue
        if p.name in req:
            kw[p.name] = req[p.name]
        elif p.default is not p.empty:
            kw[p.name] = _gen_value(p.name, p.default, a, pos) if a > 0 else p.default
    try:
        return cls(**kw), kw
    except (ValueError, TypeError):
        # constructors that validate: put generated values back to their defaults one parameter at a time until the constructor accepts them
        for k in list(kw):
            if k in req:
                continue
            kw[k] = sig.parameters[k].default
            try:
                return cls(**kw), kw
            except (ValueError, TypeError):
                continue
        return cls(**kw), kw


def _params(case, ctx):
    from sklearn.base import clone
    name = case["cls"]
    cls = discover()[name]
    try:
        est, kw = _construct(cls, name, case["assignment"])
    except Exception as e:  # noqa
        ctx.tag("construct-failed:%s:%s" % (name, type(e).__name__))
        return
    if est is None:
        ctx.tag("skipped-class:" + name)
        return
    ok, params = ctx.call("get_params:exception:" + name, est.get_params, deep=False)
    if not ok:
        return
    for k, v in kw.items():
        ctx.check("storage", k in params and _same(params[k], v) and (params[k] is v or not hasattr(v, "get_params")),
                  "storage:%s:%s:get_params-does-not-return-what-was-passed" % (name, k), "get_params does not return the constructor argument under its own name",
                  param=k, passed=repr(v)[:80], got=repr(params.get(k, "<missing>"))[:80])
    ctx.check("storage", set(params) == set(kw), "storage:%s:parameter-names-differ-from-signature" % name, "get_params keys differ from the constructor signature",
              extra=sorted(set(params) - set(kw)), missing=sorted(set(kw) - set(params)))
    # set_params(**get_params()) reproduces the estimator
    ok, _ = ctx.call("set_params:exception:" + name, est.set_params, **params)
    if ok:
        p2 = est.get_params(deep=False)
        ctx.check("set_params-roundtrip", all(_same(p2[k], params[k]) for k in params), "set_params:%s:roundtrip-changes-parameter" % name,
                  "set_params(**get_params()) changed a parameter", changed=[k for k in params if not _same(p2.get(k), params[k])])
    ok, c = ctx.call("clone:exception:" + name, clone, est)
    if ok:
        pc = c.get_params(deep=False)
        bad = [k for k in params if not (_same(pc[k], params[k]) or (hasattr(params[k], "get_params") and type(pc[k]) is type(params[k]))
                                         or isinstance(params[k], (list, tuple, dict)) or callable(params[k]))]
        ctx.check("clone", type(c) is type(est) and not bad, "clone:%s:parameters-differ" % name, "clone has other parameters than the original", differing=bad)
        ctx.check("fresh-not-fitted", (not getattr(c, "is_fitted", False)) and not getattr(est, "is_fitted", False), "state:%s:fresh-or-cloned-reports-fitted" % name,
                  "a freshly constructed / cloned estimator reports is_fitted")
    try:
        est.set_params(**{"definitely_not_a_parameter_": 1})
    except ValueError:
        ctx.check("unknown-param", True, "")
    except Exception as e:  # noqa
        ctx.check("unknown-param", False, "set_params:%s:unknown-name-raises-%s" % (name, type(e).__name__), "unknown parameter name raised %s" % type(e).__name__)
    else:
        ctx.check("unknown-param", False, "set_params:%s:unknown-name-accepted" % name, "unknown parameter name was accepted")
    ctx.event(cls=name, assignment=case["assignment"], n_params=len(kw))
    ctx.nontrivial = len(kw) >= 1


def _data(kind, rng):
    n = 30
    y = zoo.make_series(rng, n, positive=True)
    if kind in ("forecaster", "s2s", "s2p"):
        return y
    ni, nt = 12, 24
    X = pd.DataFrame({"dim_0": [pd.Series(rng.normal(0, 1, nt) + (i % 2) * np.sin(np.arange(nt))) for i in range(ni)]})
    yc = np.array(["a", "b"] * (ni // 2))
    yr = rng.normal(0, 1, ni)
    return X, yc, yr


def _is_nfe(e):
    return type(e).__name__ == "NotFittedError"


def _state(case, ctx):
    from sklearn.base import clone
    from sktime.forecasting.model_selection import SlidingWindowSplitter
    name = case["cls"]
    cls = discover()[name]
    kind = kind_of(cls)
    req = required_args(name)
    if req is None or kind in ("other", "transformer"):
        ctx.tag("state-skipped:" + name)
        return
    kw = dict(req, **FAST.get(name, {}))
    if case.get("variant"):
        kw[case["variant"][0]] = case["variant"][1]
        name_v = "%s(%s=%r)" % (name, case["variant"][0], case["variant"][1])
    else:
        name_v = name
    try:
        est = cls(**kw)
    except Exception as e:  # noqa
        ctx.tag("construct-failed:%s:%s" % (name, type(e).__name__))
        return
    rng = np.random.default_rng([case["dseed"], 44])
    d = _data(kind, rng)
    fh = [1, 2]
    if kind == "forecaster":
        y = d
        ynew = pd.Series(rng.normal(50, 2, 3), index=pd.RangeIndex(y.index[-1] + 1, y.index[-1] + 4))
        calls = {"predict": lambda e: e.predict(fh), "predict:no-horizon": lambda e: e.predict(), "update": lambda e: e.update(ynew), "update_predict_single": lambda e: e.update_predict_single(ynew, fh=fh),
                 "update_predict": lambda e: e.update_predict(ynew, cv=SlidingWindowSplitter(fh=[1], window_length=1)),
                 "update_predict:default-cv": lambda e: e.update_predict(ynew), "score": lambda e: e.score(ynew.iloc[:2], fh=fh)}
        fit = lambda e: e.fit(y.copy(), fh=fh)  # noqa
    elif kind in ("s2s", "s2p"):
        z = d
        calls = {"transform": lambda e: e.transform(z.copy()), "inverse_transform": lambda e: e.inverse_transform(z.copy()), "update": lambda e: e.update(z.iloc[-3:].copy())}
        fit = lambda e: e.fit(z.copy())  # noqa
    else:
        X, yc, yr = d
        yy = yr if kind == "regressor" else yc
        calls = {"predict": lambda e: e.predict(X), "predict_proba": lambda e: e.predict_proba(X), "score": lambda e: e.score(X, yy), "transform": lambda e: e.transform(X),
                 "inverse_transform": lambda e: e.inverse_transform(X)}
        fit = lambda e: e.fit(X, yy)  # noqa

    def unfitted_calls(e, where):
        for m, f in calls.items():
            if not hasattr(e, m.split(":")[0]):
                continue
            try:
                f(e)
            except Exception as ex:  # noqa
                ctx.check("unfitted-call", _is_nfe(ex), "unfitted:%s:%s-raises-%s" % (name, m, type(ex).__name__),
                          "%s on an unfitted estimator (%s) raised %s instead of NotFittedError" % (m, where, type(ex).__name__), message=str(ex)[:120])
            else:
                ctx.check("unfitted-call", False, "unfitted:%s:%s-returns" % (name, m), "%s on an unfitted estimator (%s) returned a result" % (m, where))
    ctx.check("fresh-not-fitted", not getattr(est, "is_fitted", False), "state:%s:fresh-reports-fitted" % name, "fresh estimator reports is_fitted")
    unfitted_calls(est, "fresh")
    if name in NOT_FITTABLE:
        ctx.tag("not-fittable:" + name)
        ctx.nontrivial = True
        return
    from vmon.contracts import _params_snapshot, params_changed
    before = _params_snapshot(est)
    try:
        out = fit(est)
    except Exception as e:  # noqa
        from vmon.core import env_signature
        env = env_signature(e)
        if env:
            ctx.env_skip(env)
        ctx.tag("fit-failed:%s:%s" % (name_v, type(e).__name__))
        return
    ctx.check("fit.returns-self", out is est, "fit:returns-not-self:" + name, "fit did not return the estimator itself")
    ctx.check("fit.sets-is_fitted", bool(getattr(est, "is_fitted", False)), "fit:is_fitted-not-set:" + name, "is_fitted false after fit")
    after = _params_snapshot(est)
    changed = params_changed(before, after) if before and after else []
    changed = [k for k in changed if not (k in before["shallow"] and k in after["shallow"] and _same(before["shallow"][k], after["shallow"][k]) and
                                          before["deep"].get(k) == after["deep"].get(k))]
    from vmon.contracts import _sklearn_composite
    if changed and _sklearn_composite(est):
        # fit delegates to scikit-learn's Pipeline / FeatureUnion, which fit their steps in place by design: not the package's code
        ctx.ambiguous += 1
        ctx.tag("fit-inherited-from-scikit-learn-fits-components-in-place:" + name)
        changed = []
    ctx.check("fit.params-unchanged", not changed, "fit:changes-constructor-parameter:%s:%s" % (name, ",".join(changed)), "fit changed constructor parameter(s) %s" % changed,
              configuration=name_v, before={k: repr(before["deep"].get(k))[:80] for k in changed}, after={k: repr(after["deep"].get(k))[:80] for k in changed})
    ok, c = ctx.call("clone-of-fitted:exception:" + name, clone, est)
    if ok:
        ctx.check("clone-of-fitted", not getattr(c, "is_fitted", False), "state:%s:clone-of-fitted-reports-fitted" % name, "a clone of a fitted estimator reports is_fitted")
        unfitted_calls(c, "clone of fitted")
    ctx.event(cls=name, kind=kind, methods=[m for m in calls if hasattr(est, m)])
    ctx.tag("fitted:" + kind)
    ctx.nontrivial = True


def _walk(est):
    """reference: (path, owner, attribute list name, component name, component) for every named component, recursively"""
    out = []
    for attr in ("forecasters", "steps"):
        comps = getattr(est, attr, None)
        if isinstance(comps, list) and comps and isinstance(comps[0], tuple):
            for cname, comp in comps:
                out.append((cname, est, attr, cname, comp))
                for sub in _walk(comp):
                    out.append((cname + "__" + sub[0],) + sub[1:])
    for attr in ("forecaster", "estimator", "transformer"):
        comp = getattr(est, attr, None)
        if comp is not None and hasattr(comp, "get_params") and attr in est.get_params(deep=False):
            out.append((attr, est, None, attr, comp))
            for sub in _walk(comp):
                out.append((attr + "__" + sub[0],) + sub[1:])
    return out


def _nested_fit(spec, case, ctx):
    """fitting a composition works on copies: every component the caller handed over (at any depth) is afterwards what it was before -
    same objects, same parameters, not fitted, no new attributes"""
    from vmon.contracts import _params_snapshot, params_changed, _sklearn_composite
    est = zoo.build(spec)
    rng = np.random.default_rng([case["pick"], 404])
    y = zoo.make_series(rng, 36 + case["pick"] % 7, positive=True)
    before = _params_snapshot(est)
    walked = [(p, c, _params_snapshot(c), bool(getattr(c, "is_fitted", False)), sorted(vars(c))) for p, _, _, _, c in _walk(est)]
    try:
        est.fit(y, fh=[1, 2, 3])
    except Exception as e:  # noqa
        from vmon.core import env_signature
        env = env_signature(e)
        if env:
            ctx.env_skip(env)
        ctx.tag("nested-fit-failed:%s" % type(e).__name__)
        return
    after = _params_snapshot(est)
    changed = params_changed(before, after) if before and after else []
    if changed and _sklearn_composite(est):
        changed = []
    ctx.check("fit.params-unchanged", not changed, "nested:fit:changes-constructor-parameter:%s:%s" % (spec[0], ",".join(changed)),
              "fit of a composition changed constructor parameter(s) %s" % changed, spec=zoo.describe(spec))
    for p, c, snap, was_fitted, attrs in walked:
        now = _params_snapshot(c)
        ch = params_changed(snap, now) if snap and now else []
        touched = (bool(getattr(c, "is_fitted", False)) != was_fitted) or sorted(vars(c)) != attrs
        ctx.check("fit.params-unchanged", not ch and not touched, "nested:fit:component-handed-over-was-%s:%s" % ("fitted" if touched else "reconfigured", type(c).__name__),
                  "fit of the composition %s the component object the caller passed in (fit has to work on a copy)" % ("fitted / wrote attributes on" if touched else "changed parameters of"),
                  path=p, spec=zoo.describe(spec), new_attributes=sorted(set(vars(c)) - set(attrs))[:6], changed=ch)
    ctx.tag("nested-fit")


def _nested(case, ctx):
    spec = case["spec"]
    est = zoo.build(spec)
    ok, deep = ctx.call("nested:get_params-exception", est.get_params, deep=True)
    if not ok:
        return
    comps = _walk(est)
    for path, owner, attr, cname, comp in comps:
        ctx.check("nested.get", path in deep and deep[path] is comp, "nested:get:component-not-listed-under-its-name", "get_params(deep=True) does not list the component under its name",
                  path=path)
        for k, v in comp.get_params(deep=False).items():
            ctx.check("nested.get", (path + "__" + k) in deep and _same(deep[path + "__" + k], v), "nested:get:component-parameter-missing-or-wrong",
                      "component__param does not read the component's parameter", path=path + "__" + k)
    if not comps:
        return
    # write one nested parameter
    cands = [(p, c) for p, _, _, _, c in comps if not zoo.children([0]) and any(isinstance(v, (int, str, bool)) and not isinstance(v, bool) for v in c.get_params(deep=False).values())]
    if cands:
        path, comp = cands[case["pick"] % len(cands)]
        keys = [k for k, v in comp.get_params(deep=False).items() if isinstance(v, (int, str)) and not isinstance(v, bool)]
        k = keys[case["pick"] % len(keys)]
        old = comp.get_params(deep=False)[k]
        new = old + 1 if isinstance(old, int) else old + "_x"
        others = {p: dict(c.get_params(deep=False)) for p, _, _, _, c in comps}
        ok, _ = ctx.call("nested:set_params-exception", est.set_params, **{path + "__" + k: new})
        if ok:
            ctx.check("nested.set", comp.get_params(deep=False)[k] == new and est.get_params(deep=True)[path + "__" + k] == new, "nested:set:component-parameter-not-written",
                      "component__param did not write the component's parameter", path=path + "__" + k, expected=new, got=comp.get_params(deep=False)[k])
            untouched = all(all(_same(c.get_params(deep=False)[kk], vv) for kk, vv in others[p].items() if not (p == path and kk == k)) for p, _, _, _, c in comps)
            ctx.check("nested.set", untouched, "nested:set:other-parameters-changed", "writing one nested parameter changed another one", path=path + "__" + k)
        try:
            est.set_params(**{path + "__no_such_param_": 1})
        except ValueError:
            ctx.check("unknown-param", True, "")
        except Exception as e:  # noqa
            ctx.check("unknown-param", False, "nested:set:unknown-nested-name-raises-%s" % type(e).__name__, "unknown nested parameter raised %s" % type(e).__name__)
        else:
            ctx.check("unknown-param", False, "nested:set:unknown-nested-name-accepted", "unknown nested parameter name accepted", path=path)
    # replace a whole component by name
    top = [(p, o, a, n, c) for p, o, a, n, c in comps if a is not None]
    if top:
        path, owner, attr, cname, comp = top[case["pick"] % len(top)]
        from sktime.forecasting.naive import NaiveForecaster
        from sktime.transformations.series.boxcox import LogTransformer
        from sktime.forecasting.base import BaseForecaster
        new = NaiveForecaster(strategy="drift") if isinstance(comp, BaseForecaster) else LogTransformer()
        before = list(getattr(owner, attr))
        ok, _ = ctx.call("nested:replace-exception", est.set_params, **{path: new})
        if ok:
            after = list(getattr(owner, attr))
            good = len(after) == len(before) and all((n2 == n1 and (c2 is new if n1 == cname else c2 is c1)) for (n1, c1), (n2, c2) in zip(before, after))
            ctx.check("nested.replace", good and est.get_params(deep=True)[path] is new, "nested:replace:component-not-replaced-by-name",
                      "set_params(name=estimator) did not replace exactly that component", path=path)
        # whole list and a component replacement in ONE call: documented order is whole list first, then replacement by (new) name
        est2 = zoo.build(spec)
        tops2 = [(p, o, a, n, c) for p, o, a, n, c in _walk(est2) if a is not None and "__" not in p]
        if tops2:
            _, owner2, attr2, _, _ = tops2[0]
            old_list = list(getattr(owner2, attr2))
            renamed = [("r%d_%s" % (i, n), c) for i, (n, c) in enumerate(old_list)]
            is_fc = isinstance(old_list[-1][1], BaseForecaster)
            repl = NaiveForecaster(strategy="drift") if is_fc else LogTransformer()
            tgt = renamed[-1][0] if is_fc else renamed[0][0]
            if not isinstance(dict(renamed)[tgt], BaseForecaster) and is_fc:
                tgt = renamed[-1][0]
            try:
                est2.set_params(**{attr2: list(renamed), tgt: repl})
                now = list(getattr(est2, attr2))
                good = [n for n, _ in now] == [n for n, _ in renamed] and dict(now)[tgt] is repl and not hasattr(est2, tgt)
                ctx.check("nested.replace", good, "nested:replace:list-and-component-in-one-call", "set_params(list=..., name=estimator) did not install the list first and then "
                          "replace the component of that list by name", names=[n for n, _ in now], target=tgt, replaced=dict(now).get(tgt) is repl, stray_attribute=hasattr(est2, tgt))
            except Exception as e:  # noqa
                ctx.check("nested.replace", False, "nested:replace:list-and-component-in-one-call-raises-%s" % type(e).__name__, "set_params(list=..., name=estimator) raised %r" % e)
            # two components exchanged by name in ONE call: both replacements take effect, the rest of the list stays
            est5 = zoo.build(spec)
            lst5 = list(getattr(est5, attr2))
            if len(lst5) >= 2:
                mkr = lambda c: NaiveForecaster(strategy="mean", window_length=3) if isinstance(c, BaseForecaster) else LogTransformer()  # noqa
                picks = [0, len(lst5) - 1] if case["pick"] % 2 else [len(lst5) - 1, len(lst5) - 2]
                repl5 = {lst5[j][0]: mkr(lst5[j][1]) for j in picks}
                try:
                    est5.set_params(**repl5)
                    now5 = list(getattr(est5, attr2))
                    good = len(now5) == len(lst5) and all(n2 == n1 and (c2 is repl5[n1] if n1 in repl5 else c2 is c1) for (n1, c1), (n2, c2) in zip(lst5, now5))
                    ctx.check("nested.replace", good, "nested:replace:two-components-in-one-call", "set_params(name_a=estimator, name_b=estimator) did not replace exactly these two components",
                              names=[n for n, _ in now5], replaced={n: bool(dict(now5).get(n) is v) for n, v in repl5.items()})
                except Exception as e:  # noqa
                    ctx.check("nested.replace", False, "nested:replace:two-components-in-one-call-raises-%s" % type(e).__name__, "set_params replacing two components raised %r" % e)
            est3 = zoo.build(spec)
            owner3 = est3
            stale = old_list[0][0]
            try:
                est3.set_params(**{attr2: [("r%d_%s" % (i, n), c) for i, (n, c) in enumerate(getattr(owner3, attr2))], stale: repl})
            except ValueError:
                ctx.check("unknown-param", True, "")
            except Exception as e:  # noqa
                ctx.check("unknown-param", False, "nested:set:stale-component-name-raises-%s" % type(e).__name__, "a component name that no longer exists raised %s" % type(e).__name__)
            else:
                ctx.check("unknown-param", False, "nested:set:stale-component-name-accepted", "a component name that only existed in the replaced list was accepted", name=stale)
    else:
        ctx.seen("nested.replace", 0)
    _nested_fit(spec, case, ctx)
    ctx.event(spec=zoo.describe(spec), components=len(comps))
    for m in ("nested.set", "nested.replace"):
        ctx.seen(m, 0)
    depth = lambda s: 1 + max([depth(c) for c in zoo.children(s)] or [0])  # noqa
    ctx.nontrivial = depth(spec) >= 2
