"""C03 - forecasts are indexed by exactly the requested horizon from the true cutoff.

Metamorphic driver over the forecaster zoo and its random compositions (relative vs absolute
horizon, fh in fit vs predict, index shift by k, RangeIndex vs integer Index, 0-3 updates) plus
the always-on protocol monitors of vmon.contracts, which check fit/predict/update of every
nested member re-entrantly (cutoff after fit/update, forecast labels = requested horizon)."""
import numpy as np
import pandas as pd

from vmon import zoo

PID = "C03"
LEVEL = "exploration"
RULE = ("cases = (forecaster spec incl. random compositions to depth 2, series kind/length/offset/index class, horizon shape, where fh "
        "is given, index shift k, number and kind of updates); non-trivial: composite forecaster or gapped horizon or >= 1 update or "
        "non-zero offset; distinct = distinct case dict")
ANCHOR_FILES = ["sktime/forecasting/base/_sktime.py", "sktime/forecasting/base/_fh.py", "sktime/forecasting/base/_meta.py",
                "sktime/forecasting/naive.py", "sktime/forecasting/trend.py", "sktime/forecasting/base/adapters/_statsmodels.py",
                "sktime/forecasting/compose/*.py", "sktime/forecasting/model_selection/_tune.py", "sktime/forecasting/theta.py"]
REQUIRED_REACH = ["_sktime.py:_SktimeForecaster._set_y_X", "_sktime.py:_SktimeForecaster._update_y_X",
                  "_sktime.py:_BaseWindowForecaster._predict_fixed_cutoff", "trend.py:PolynomialTrendForecaster._predict",
                  "_statsmodels.py:_StatsModelsAdapter._predict", "_stack.py:StackingForecaster._predict",
                  "_ensemble.py:EnsembleForecaster._predict", "_pipeline.py:TransformedTargetForecaster._predict",
                  "_multiplexer.py:MultiplexForecaster._predict", "_reduce.py:_RecursiveReducer._predict_last_window"]
REQUIRED_MONITORS = ["predict.shape", "predict.index", "predict.finite", "cutoff.fit", "cutoff.update", "rel==abs", "shift", "step-values",
                     "contract:predict.index", "contract:fit.cutoff", "contract:update.cutoff"]
NOT_COVERED = ["gapped integer training indices (the repository treats integer labels as unit-spaced positions)",
               "real scikit-learn regressors in direct/recursive/dirrec reduction without the Squeeze1 adapter"]
ASSUMPTIONS = ["values are compared with rtol 1e-7 (statsmodels optimisers are deterministic for identical data)"]
JOBS = {"quick": 8, "thorough": 16}
CASE_TIMEOUT = {"quick": 120.0, "thorough": 300.0}
FHS = [[1], [1, 2, 3], [2], [1, 3], [2, 5], [1, 2, 3, 4, 5], [3, 4]]
EXTRA = [
    ["grid", {"grid": {"strategy": ["last", "mean"]}, "cv": ["sliding", {"fh": [1], "window_length": 8, "step_length": 4}], "scoring": None},
     ["naive", {}]],
    ["rand", {"grid": {"degree": [0, 1, 2]}, "cv": ["expanding", {"fh": [1, 2], "initial_window": 9, "step_length": 5}], "scoring": "mse", "n_iter": 2},
     ["poly", {}]],
    ["online", {}, [["naive", {"strategy": "last"}], ["naive", {"strategy": "mean", "window_length": 3}]]],
    ["reduce", {"strategy": "recursive", "window_length": 4, "reg": "tsf"}],
    ["pipeline", {}, [], ["naive", {"strategy": "last"}]],                 # a pipeline that consists of its forecaster only
    ["pipeline", {}, [], ["poly", {"degree": 1}]],
    # two steep transformers in a row: an update batch that reached the forecaster in another representation than the training data would
    # come back through exp(exp(.)) as a non-finite forecast
    ["pipeline", {}, [["log", {}], ["log", {}]], ["naive", {"strategy": "last"}]],
    ["ensemble", {"aggfunc": "mean", "n_jobs": 2}, [["naive", {"strategy": "last"}], ["poly", {"degree": 1}], ["naive", {"strategy": "drift"}]]],
]


def cases(tier, seed):
    rng = np.random.default_rng([seed, 3])
    leaves = zoo.LEAVES + zoo.SLOW_LEAVES + EXTRA
    n_rand = 700 if tier == "quick" else 20000
    specs = [("leaf", s) for s in leaves] + [("comp", None)] * n_rand
    for i, (k, s) in enumerate(specs):
        spec = s if k == "leaf" else zoo.random_spec(rng, depth=2, allow_slow=rng.random() < 0.25)
        n = int(rng.integers(zoo.min_length(spec) + 8, zoo.min_length(spec) + 40))
        yield {"spec": spec, "n": n, "off": int(rng.choice([0, 1, -40, 13, 10 ** 6])), "idx": "range" if rng.random() < 0.5 else "int",
               "fh": FHS[int(rng.integers(0, len(FHS)))], "fh_in": ["fit", "predict", "both"][int(rng.integers(0, 3))],
               "shift": int(rng.choice([-40, 1, 13, 10 ** 6])), "updates": [[], [True], [False], [True, False], [False, False, True]][int(rng.integers(0, 5))],
               "series": ["seasonal", "walk"][int(rng.integers(0, 2))], "dseed": int(rng.integers(0, 2 ** 31)), "integer": bool(rng.random() < 0.2)}


def _vals_close(a, b):
    a, b = np.asarray(a, dtype=float), np.asarray(b, dtype=float)
    return a.shape == b.shape and bool(np.allclose(a, b, rtol=1e-7, atol=1e-7 * (1.0 + float(np.max(np.abs(b))) if b.size else 1.0), equal_nan=True))


def _domain_exit(f, fharg):
    """True when a NaN pipeline forecast is forced by mathematics: the final forecaster's forecast is finite, but lies outside the
    domain of the inverse Box-Cox map (lambda * z + 1 <= 0), e.g. a linear meta-learner extrapolating below zero in the transformed
    scale.  No finite value could be returned there.  (Overflow of exp / power is not exempted.)"""
    steps = getattr(f, "steps_", None)
    if not steps:
        return False
    try:
        z = steps[-1][1].predict(fharg)
        if not np.all(np.isfinite(np.asarray(z, dtype=float))):
            return False
        for _, t in reversed(steps[:-1]):
            inner = getattr(t, "transformer_", t)
            z2 = t.inverse_transform(z) if hasattr(t, "inverse_transform") else z
            if not np.all(np.isfinite(np.asarray(z2, dtype=float))):
                lam = getattr(inner, "lambda_", None)
                return type(inner).__name__ == "BoxCoxTransformer" and lam is not None and bool(np.any(float(lam) * np.asarray(z, dtype=float) + 1.0 <= 0.0))
            z = z2
    except Exception:  # noqa
        return False
    return False


def run_case(case, ctx):
    import warnings
    from sktime.forecasting.base import ForecastingHorizon

    warnings.simplefilter("ignore")
    spec, n, off, fh = case["spec"], case["n"], case["off"], case["fh"]
    rng = np.random.default_rng([case["dseed"], 33])
    total = n + 3 * len(case["updates"])
    full = zoo.make_series(rng, total, positive=True, off=off, kind=case["series"], index=case["idx"], integer=bool(case.get("integer")))
    if case.get("integer"):
        ctx.tag("integer-series")
    y = full.iloc[:n]
    need_fit = zoo.requires_fh_in_fit(spec)
    fh_in = "fit" if (need_fit and case["fh_in"] == "predict") else case["fh_in"]
    name = zoo.describe(spec)

    def fit_predict(yy, fharg_fit, fharg_pred, tag):
        f = zoo.build(spec)
        ok, _ = ctx.call("fit:exception:" + spec[0], f.fit, yy.copy(), fh=fharg_fit)
        if not ok:
            return None, None
        ok, p = ctx.call("predict:exception:" + spec[0], f.predict, fharg_pred)
        return (f, p) if ok else (f, None)

    # the horizon arrives in one of the documented containers, not necessarily in increasing order: the forecast is in time order anyway
    C = [lambda v: list(v), lambda v: np.array(v), lambda v: pd.Index(list(v)[::-1], dtype="int64"), lambda v: list(v)[::-1], lambda v: np.array(list(v)[1:] + list(v)[:1])][case["dseed"] % 5]
    ctx.tag("horizon-container:%d" % (case["dseed"] % 5))
    f, p = fit_predict(y, C(fh) if fh_in in ("fit", "both") else None, C(fh) if fh_in in ("predict", "both") else None, "rel")
    if f is None or p is None:
        return
    cutoff = int(y.index[-1])
    ctx.check("cutoff.fit", f.cutoff == y.index[-1], "cutoff:not-last-training-point-after-fit:" + spec[0], "cutoff after fit wrong", got=f.cutoff, expected=cutoff)
    exp_idx = [cutoff + h for h in fh]
    ctx.check("predict.shape", isinstance(p, pd.Series) and len(p) == len(fh), "predict:not-one-value-per-step:" + spec[0],
              "predict did not return one value per requested step", n=len(p), steps=len(fh))
    ctx.check("predict.index", [int(v) for v in p.index] == exp_idx, "predict:index-not-cutoff-plus-fh:" + spec[0],
              "relative horizon: forecast not labelled cutoff + step", got=[int(v) for v in p.index], expected=exp_idx)
    if not np.all(np.isfinite(np.asarray(p, dtype=float))) and _domain_exit(f, None if fh_in == "fit" else fh):
        ctx.ambiguous += 1
        ctx.tag("non-finite-forecast-forced-by-inverse-transform-domain")
    else:
        ctx.check("predict.finite", bool(np.all(np.isfinite(np.asarray(p, dtype=float)))), "predict:non-finite-forecast:" + spec[0],
                  "non-finite forecast for finite data", got=np.asarray(p, dtype=float).tolist())
    # ---- absolute horizon gives the same forecast --------------------------------------------------
    fabs = ForecastingHorizon(C(exp_idx), is_relative=False)
    f2, p2 = fit_predict(y, fabs if fh_in in ("fit", "both") else None, ForecastingHorizon(C(exp_idx), is_relative=False) if fh_in in ("predict", "both") else None, "abs")
    if p2 is not None:
        ctx.check("rel==abs", [int(v) for v in p2.index] == exp_idx, "predict:absolute-horizon-labels:" + spec[0],
                  "absolute horizon: forecast not labelled by the requested time points", got=[int(v) for v in p2.index], expected=exp_idx)
        ctx.check("rel==abs", _vals_close(p2.values, p.values), "predict:relative-vs-absolute-horizon-differ:" + spec[0],
                  "the same horizon given relative and absolute gives different values", relative=np.asarray(p).tolist(), absolute=np.asarray(p2).tolist())
    # ---- the same numbers with the other meaning, asked of the same fitted forecaster: labelled as asked -------------------------
    if fh_in == "predict" and not zoo.requires_fh_in_fit(spec) and cutoff < min(fh):
        # (only where the numbers are ahead of the cutoff both as steps and as time points: short series / early index starts)
        ok, p5 = ctx.call("predict:exception:" + spec[0], f.predict, ForecastingHorizon(list(fh), is_relative=False))
        if ok:
            ctx.check("rel==abs", [int(v) for v in p5.index] == list(fh), "predict:same-numbers-as-time-points:labelled-like-the-earlier-relative-request:" + spec[0],
                      "after a relative horizon S the absolute time points S were not answered with labels S", got=[int(v) for v in p5.index], expected=list(fh), cutoff=cutoff)
        ok, p6 = ctx.call("predict:exception:" + spec[0], f.predict, list(fh))
        if ok:
            ctx.check("predict.index", [int(v) for v in p6.index] == exp_idx, "predict:same-numbers-as-steps:labelled-like-the-earlier-absolute-request:" + spec[0],
                      "after the absolute time points S the relative steps S were not answered with labels cutoff + S", got=[int(v) for v in p6.index], expected=exp_idx)
        ctx.tag("same-numbers-other-meaning")
    # ---- two composites built from THE SAME component objects are separate once fitted: fitting the second on a later series does not
    # move the first one's forecasts ---------------------------------------------------------------------------------------------
    if spec[0] in ("ensemble", "stack", "online", "multiplex", "pipeline") and case["dseed"] % 3 == 0:
        try:
            fa_ = zoo.build(spec)
            fb_ = type(fa_)(**fa_.get_params(deep=False))
            need = zoo.requires_fh_in_fit(spec)
            fa_.fit(y.copy(), fh=list(fh) if need else None)
            y_later = pd.Series(np.asarray(y, dtype=float) * 1.5 + 2.0, index=y.index + 57)
            fb_.fit(y_later, fh=list(fh) if need else None)
            shared_ok = True
        except Exception as e:  # noqa
            shared_ok = False
            ctx.tag("shared-components:setup-failed:" + type(e).__name__)
        if shared_ok:
            ok, pa_ = ctx.call("predict:exception:" + spec[0], fa_.predict, None if need else list(fh))
            if ok:
                ctx.check("predict.index", [int(v) for v in pa_.index] == exp_idx and int(fa_.cutoff) == cutoff, "predict:composite-sharing-component-objects:labelled-from-the-other-composite-s-cutoff:" + spec[0],
                          "after a second composite holding the same component objects was fitted on a later series, the first one's forecast is not labelled from its own cutoff",
                          got=[int(v) for v in pa_.index], expected=exp_idx)
                ctx.check("rel==abs", _vals_close(np.asarray(pa_, dtype=float), np.asarray(p, dtype=float)), "predict:composite-sharing-component-objects:values-changed:" + spec[0],
                          "... and its values differ from those of the composite fitted alone", got=np.asarray(pa_, dtype=float).tolist()[:4], expected=np.asarray(p, dtype=float).tolist()[:4])
            ctx.tag("shared-component-objects")
    # ---- each step's value belongs to that step: a horizon with gaps / a late start is a sub-selection of the full one --------
    full_fh = list(range(1, max(fh) + 1))
    if fh != full_fh and zoo.horizon_separable(spec):
        f4, p4 = fit_predict(y, full_fh if fh_in in ("fit", "both") else None, full_fh if fh_in in ("predict", "both") else None, "full")
        if p4 is not None and len(p4) == len(full_fh):
            sub = [float(p4.iloc[h - 1]) for h in fh]
            ctx.check("step-values", _vals_close(np.asarray(p, dtype=float), sub), "predict:value-not-that-of-its-step:" + spec[0],
                      "the value labelled cutoff + h is not the forecast for step h (it differs from the same step in the horizon 1..max)",
                      horizon=fh, got=np.asarray(p).tolist(), steps_of_full_horizon=sub)
    else:
        ctx.seen("step-values", 0)
    # ---- index shift ------------------------------------------------------------------------------------
    k = case["shift"]
    ys = pd.Series(y.values.copy(), index=(pd.RangeIndex(off + k, off + k + n) if case["idx"] == "range" else pd.Index(np.arange(off + k, off + k + n))))
    f3, p3 = fit_predict(ys, fh if fh_in in ("fit", "both") else None, fh if fh_in in ("predict", "both") else None, "shift")
    if p3 is not None:
        ctx.check("shift", [int(v) for v in p3.index] == [v + k for v in exp_idx], "shift:forecast-index-not-shifted:" + spec[0],
                  "shifting the training index by k did not shift the forecast index by k", k=k, got=[int(v) for v in p3.index])
        ctx.check("shift", _vals_close(p3.values, p.values), "shift:forecast-values-changed:" + spec[0],
                  "shifting the training index changed the forecast values", k=k, base=np.asarray(p).tolist(), shifted=np.asarray(p3).tolist())
    # ---- other index class, same labels ---------------------------------------------------------------
    # ---- updates ------------------------------------------------------------------------------------------
    pos = n
    for u, up in enumerate(case["updates"]):
        size_u = [3, 1, 2][(case["dseed"] + u) % 3]         # batches of one, two or three new observations
        batch = full.iloc[pos:pos + size_u]
        pos += size_u
        ok, _ = ctx.call("update:exception:" + spec[0], f.update, batch.copy(), update_params=up)
        if not ok:
            return
        ctx.check("cutoff.update", f.cutoff == batch.index[-1], "cutoff:not-last-point-of-update-data:" + spec[0],
                  "cutoff after update is not the last time point passed to update", got=f.cutoff, expected=int(batch.index[-1]), update_params=up)
        ok, pu = ctx.call("predict-after-update:exception:" + spec[0], f.predict, fh if not need_fit or True else None)
        if not ok:
            return
        e2 = [int(batch.index[-1]) + h for h in fh]
        ctx.check("predict.index", [int(v) for v in pu.index] == e2 and len(pu) == len(fh), "predict:index-after-update:" + spec[0],
                  "forecast after update not labelled from the new cutoff", got=[int(v) for v in pu.index], expected=e2, update_params=up)
        if not np.all(np.isfinite(np.asarray(pu, dtype=float))) and _domain_exit(f, fh):
            ctx.ambiguous += 1
            ctx.tag("non-finite-forecast-forced-by-inverse-transform-domain")
        else:
            ctx.check("predict.finite", bool(np.all(np.isfinite(np.asarray(pu, dtype=float)))), "predict:non-finite-forecast-after-update:" + spec[0],
                      "non-finite forecast after update", got=np.asarray(pu, dtype=float).tolist(), update_params=up)
    if not case["updates"]:
        ctx.seen("cutoff.update", 0)
    ctx.event(forecaster=name, n=n, off=off, fh=fh, fh_in=fh_in, shift=k, updates=case["updates"], forecast=np.asarray(p).tolist()[:4])
    ctx.tag("kind:" + spec[0])
    if zoo.children(spec) or fh != list(range(1, len(fh) + 1)) or case["updates"] or off:
        ctx.nontrivial = True
