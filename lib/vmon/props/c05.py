"""C05 - reduction feeds regressors exactly the lagged windows, never the future.

History monitor: spy regressors (tabular and panel scitype) record every fit/predict
argument; series carry unique ids (y[t] = 1000 + t, x_j[t] = 10000 (j+1) + t) so that a
recorded cell identifies its variable and time point; predictions are ids >= 900000 so
fed-back predictions are recognisable.  Expected arguments are built with plain loops."""
import numpy as np
import pandas as pd

from vmon import spies

PID = "C05"
LEVEL = "exploration"
RULE = ("cases = (strategy, scitype, n, window_length, fh set, number of exogenous columns, where fh is given, index offset, "
        "follow-up (none / update with refit / update without refit), value kind); small scope enumerated, rest seeded; "
        "non-trivial: at least 2 training rows and (window_length >= 2 or gapped fh or exogenous columns or an update); "
        "distinct = distinct case dict")
ANCHOR_FILES = ["sktime/forecasting/compose/_reduce.py", "sktime/forecasting/base/_sktime.py"]
REQUIRED_REACH = ["_reduce.py:_sliding_window_transform", "_reduce.py:_DirectReducer._predict_last_window",
                  "_reduce.py:_MultioutputReducer._predict_last_window", "_reduce.py:_RecursiveReducer._predict_last_window",
                  "_reduce.py:_DirRecReducer._predict_last_window", "_sktime.py:_BaseWindowForecaster._get_last_window",
                  "_reduce.py:make_reduction"]
REQUIRED_MONITORS = ["fit.rows", "fit.targets", "fit.no-future", "predict.window", "predict.feedback", "predict.forecast"]
NOT_COVERED = ["real scikit-learn regressors without the Squeeze1 adapter (numpy 2 rejects arr[i] = 1-element array)",
               "in-sample horizons (not implemented by the reducers)"]
ASSUMPTIONS = ["'all full windows are used once' is read as: all windows for which the targets of every requested step exist"]
JOBS = {"quick": 4, "thorough": 16}
STRATS = ["direct", "recursive", "multioutput", "dirrec"]
XNAMES = ["temp", "load", "aux"]      # exogenous column labels, deliberately not in sorted order: columns keep the order they are given in


def cases(tier, seed):
    rng = np.random.default_rng([seed, 5])
    i = 0
    nmax, wlmax = (11, 4) if tier == "quick" else (14, 5)
    fhs = [[1], [2], [1, 2], [1, 3], [2, 3], [1, 2, 3], [4], [1, 4], [2, 4]]
    for strategy in STRATS:
        for scitype in ("tabular-regressor", "time-series-regressor"):
            for n in range(4, nmax + 1):
                for wl in range(1, wlmax + 1):
                    for fh in fhs:
                        i += 1
                        nx = 0 if strategy == "dirrec" else [0, 0, 1, 2][i % 4]
                        yield {"strategy": strategy, "scitype": scitype, "n": n, "wl": wl, "fh": fh, "nx": nx,
                               "fh_in": ["fit", "both", "predict"][i % 3], "off": [0, 3, -7, 500][i % 4],
                               "then": ["none", "none", "update_refit", "update_norefit", "update_predict"][(i // 3) % 5], "values": "id", "dseed": i}
    nn = 600 if tier == "quick" else 120000
    for _ in range(nn):
        strategy = STRATS[int(rng.integers(0, 4))]
        n = int(rng.integers(8, 61))
        wl = int(rng.integers(1, 9))
        k = int(rng.integers(1, 5))
        fh = sorted(set(int(x) for x in rng.integers(1, 7, size=k)))
        yield {"strategy": strategy, "scitype": ["tabular-regressor", "time-series-regressor"][int(rng.integers(0, 2))], "n": n, "wl": wl,
               "fh": fh, "nx": 0 if strategy == "dirrec" else int(rng.integers(0, 3)), "fh_in": ["fit", "both", "predict"][int(rng.integers(0, 3))],
               "off": int(rng.integers(-100, 10 ** 5)), "then": ["none", "update_refit", "update_norefit", "update_predict"][int(rng.integers(0, 4))],
               "values": ["id", "random", "int-target"][int(rng.integers(0, 3))], "dseed": int(rng.integers(0, 2 ** 31))}


def _series(case, total):
    """variables as lists by position: S[0] = target, S[1..] = exogenous, long enough for updates and future X."""
    nx = case["nx"]
    if case["values"] == "id":
        S = [[1000.0 + t for t in range(total)]] + [[10000.0 * (j + 1) + t for t in range(total)] for j in range(nx)]
    elif case["values"] == "int-target":
        # integer-typed target (counts), real-valued exogenous variables: the window must carry both unchanged
        rng = np.random.default_rng([case["dseed"], 55])
        S = [[int(v) for v in rng.integers(-50, 500, size=total)]] + [list(np.round(rng.normal(0, 3, size=total), 6)) for _ in range(nx)]
    else:
        rng = np.random.default_rng([case["dseed"], 55])
        S = [list(np.round(rng.normal(0, 10, size=total), 6)) for _ in range(nx + 1)]
    return S


def _window(S, start, wl, scitype, extra=None):
    """layout of one regressor row for the window starting at `start`"""
    rows = [[S[v][start + k] for k in range(wl)] for v in range(len(S))]
    if extra is not None:   # dirrec: appended earlier-step targets / predictions (single variable)
        rows = [rows[0] + list(extra)]
    if scitype == "tabular-regressor":
        return [x for r in rows for x in r]
    return rows


def _arr_eq(a, b):
    a = np.asarray(a, dtype=float)
    b = np.asarray(b, dtype=float)
    return a.shape == b.shape and bool(np.array_equal(a, b))


def _expected_fits(S, n, wl, fh, strategy, scitype):
    hmax = 1 if strategy == "recursive" else max(fh)
    R = n - wl - hmax + 1
    tfh = [1] if strategy == "recursive" else fh
    Xt = [_window(S, r, wl, scitype) for r in range(R)]
    yt = [[S[0][r + wl - 1 + h] for h in tfh] for r in range(R)]
    fits = []
    if strategy == "direct":
        for i in range(len(fh)):
            fits.append((Xt, [row[i] for row in yt], fh[i]))
    elif strategy == "multioutput":
        fits.append((Xt, yt, None))
    elif strategy == "recursive":
        fits.append((Xt, [row[0] for row in yt], 1))
    else:
        for i in range(len(fh)):
            Xi = [_window(S, r, wl, scitype, extra=yt[r][:i]) for r in range(R)]
            fits.append((Xi, [row[i] for row in yt], fh[i]))
    return fits, R


def _check_fits(ctx, events, S, n, wl, fh, strategy, scitype, label):
    fits, R = _expected_fits(S, n, wl, fh, strategy, scitype)
    ok = ctx.check("fit.rows", len(events) == len(fits), "reduce:%s:number-of-regressor-fits" % strategy,
                   "number of regressor fits differs", got=len(events), expected=len(fits), at=label)
    if not ok:
        return False
    good = True
    for i, (ev, (Xe, ye, h)) in enumerate(zip(events, fits)):
        Xg, yg = ev["X"], ev["y"]
        g1 = ctx.check("fit.rows", _arr_eq(Xg, Xe), "reduce:%s:training-rows-not-the-lagged-windows" % strategy,
                       "training rows given to the regressor are not the consecutive lagged windows (each full window once, in order)",
                       at=label, fit=i, shape_got=list(np.shape(Xg)), shape_expected=list(np.shape(Xe)),
                       first_row_got=np.asarray(Xg).reshape(len(Xg), -1)[0].tolist() if len(Xg) else None,
                       first_row_expected=np.asarray(Xe).reshape(len(Xe), -1)[0].tolist() if len(Xe) else None,
                       last_row_got=np.asarray(Xg).reshape(len(Xg), -1)[-1].tolist() if len(Xg) else None,
                       last_row_expected=np.asarray(Xe).reshape(len(Xe), -1)[-1].tolist() if len(Xe) else None)
        g2 = ctx.check("fit.targets", _arr_eq(yg, ye), "reduce:%s:target-not-h-steps-after-window" % strategy,
                       "target is not the observation h steps after the end of its window", at=label, fit=i, step=h,
                       got=np.asarray(yg).tolist()[:6], expected=np.asarray(ye).tolist()[:6])
        # independent no-future monitor on the recorded arguments (id values decode to time points)
        if ctx.case["values"] == "id" and len(Xg) == len(np.asarray(yg)):
            flatX = np.asarray(Xg).reshape(len(Xg), -1)
            yy = np.asarray(yg).reshape(len(Xg), -1)
            leak = False
            for r in range(len(flatX)):
                tmax = max(int(v % 10000 if v >= 10000 else v - 1000) for v in flatX[r])
                tmin_target = int(min(yy[r]) - 1000)
                if i_dirrec_limit(strategy, i):
                    tmin_target = int(yy[r][0] - 1000)
                if tmax >= tmin_target:
                    leak = True
                    break
            ctx.check("fit.no-future", not leak, "reduce:%s:row-contains-target-or-later" % strategy,
                      "a training row contains its own target or a later value", at=label, fit=i)
        good = good and g1 and g2
    return good


def i_dirrec_limit(strategy, i):
    return strategy == "dirrec"


def run_case(case, ctx):
    from sktime.forecasting.compose import make_reduction

    strategy, scitype, n, wl, fh, nx, off = (case[k] for k in ("strategy", "scitype", "n", "wl", "fh", "nx", "off"))
    hmax = max(fh)
    n_upd = 3 if case["then"] != "none" else 0
    if case["then"] == "update_predict":
        n_upd = 0 if case["nx"] else 3
    total = n + n_upd + hmax + 2
    S = _series(case, total)
    lid = spies.new_log()
    try:
        _drive(case, ctx, make_reduction, S, lid, strategy, scitype, n, wl, fh, nx, off, hmax, n_upd)
    finally:
        spies.drop(lid)


def _frame(S, lo, hi, off, nx):
    idx = pd.RangeIndex(off + lo, off + hi)
    y = pd.Series(S[0][lo:hi], index=idx)
    X = pd.DataFrame({XNAMES[j]: S[j + 1][lo:hi] for j in range(nx)}, index=idx) if nx else None
    return y, X


def _drive(case, ctx, make_reduction, S, lid, strategy, scitype, n, wl, fh, nx, off, hmax, n_upd):
    reg = spies.SpyTabularRegressor(log_id=lid) if scitype == "tabular-regressor" else spies.SpyPanelRegressor(log_id=lid)
    # the three public ways to get a reduction forecaster: make_reduction and the two older factory functions (still exported)
    way = case["dseed"] % 7
    if way == 5:
        import warnings
        from sktime.forecasting.compose import ReducedForecaster
        with warnings.catch_warnings():
            warnings.simplefilter("ignore")
            f = ReducedForecaster(reg, scitype=scitype if case["dseed"] % 2 else "infer", strategy=strategy, window_length=wl)
        ctx.tag("factory:ReducedForecaster")
    elif way == 6:
        import warnings
        from sktime.forecasting.compose._reduce import ReducedRegressionForecaster
        with warnings.catch_warnings():
            warnings.simplefilter("ignore")
            f = ReducedRegressionForecaster(reg, scitype, strategy=strategy, window_length=wl)
        ctx.tag("factory:ReducedRegressionForecaster")
    else:
        f = make_reduction(reg, strategy=strategy, window_length=wl, scitype=scitype if case["dseed"] % 2 else "infer")
    y, X = _frame(S, 0, n, off, nx)
    need_fit_fh = strategy != "recursive"
    fh_in = case["fh_in"]
    if need_fit_fh and fh_in == "predict":
        fh_in = "fit"
    feasible = wl + (1 if strategy == "recursive" else hmax) <= n
    base = 0
    if case["dseed"] % 5 == 3:
        # a used forecaster that is given another window length and fitted again: the new fit is made with the new configuration only
        wl0 = wl + 2 if case["dseed"] % 2 else max(1, wl - 1)
        if wl0 != wl:
            f.set_params(window_length=wl0)
            m = min(n, wl0 + hmax + 3)
            try:
                # the earlier series ends at time point 0 in half of these cases, and the earlier horizon is then given as the absolute time
                # points 1.. (the same numbers as this case's relative steps, with the other meaning)
                i0 = pd.RangeIndex(7, 7 + m) if case["dseed"] % 4 < 2 else pd.RangeIndex(1 - m, 1)
                fh0 = fh
                if case["dseed"] % 4 >= 2:
                    from sktime.forecasting.base import ForecastingHorizon
                    fh0 = ForecastingHorizon(list(fh), is_relative=False)
                    ctx.tag("prehistory:same-numbers-as-absolute-time-points")
                f.fit(pd.Series(np.linspace(5.0, 9.0, m), index=i0), None if X is None else
                      pd.DataFrame({c: np.linspace(1.0, 2.0, m) for c in X.columns}, index=i0), fh=fh0)
                ctx.tag("prehistory:fitted-with-window-%s-then-reconfigured" % ("longer" if wl0 > wl else "shorter"))
            except Exception:  # noqa
                ctx.tag("prehistory:earlier-fit-refused")
            f.set_params(window_length=wl)
            base = len(spies.log(lid))
    try:
        # the same horizon as relative steps or (a quarter of the cases without follow-up) as absolute time points
        fha = fh
        if case["then"] == "none" and case["dseed"] % 4 == 1:
            from sktime.forecasting.base import ForecastingHorizon
            fha = ForecastingHorizon([off + n - 1 + h for h in fh], is_relative=False)
            ctx.tag("horizon:absolute")
        f.fit(y, X, fh=fha if fh_in in ("fit", "both") else None)
    except ValueError as e:
        ctx.check("fit.rows", not feasible, "reduce:%s:feasible-config-rejected" % strategy, "feasible configuration rejected: %s" % e)
        return
    if not feasible:
        ctx.check("fit.rows", False, "reduce:%s:window-does-not-fit-accepted" % strategy, "window + horizon longer than the series accepted")
        return
    lg = spies.log(lid)
    fits = [e for e in lg[base:] if e["op"] == "fit"]
    if not _check_fits(ctx, fits, S, n, wl, fh, strategy, scitype, "fit"):
        return
    fit_objs = [e["obj"] for e in fits]
    cur_n = n
    if case["then"] == "update_predict" and nx:
        ctx.tag("then:update_predict-skipped (exogenous data: declared not implemented by the repository)")
    elif case["then"] == "update_predict":
        # a rolling evaluation over later data leaves the forecaster's own cutoff where it was: a following predict must
        # still be made from the window that ends at that cutoff, whatever the forecaster has seen in between
        from sktime.forecasting.model_selection import SlidingWindowSplitter
        y2, X2 = _frame(S, n, n + n_upd + hmax, off, nx)
        ok, _ = ctx.call("reduce:%s:update_predict-exception" % strategy, lambda: f.update_predict(y2, cv=SlidingWindowSplitter(fh=fh, window_length=1), update_params=False))
        if not ok:
            return
        ctx.check("predict.window", int(f.cutoff) == off + n - 1, "reduce:%s:update_predict-moved-cutoff" % strategy, "update_predict left the cutoff elsewhere", got=f.cutoff)
        ctx.tag("then:update_predict")
    elif case["then"] != "none":
        # the batch may restate the last observations with revised values: later values win, windows and training rows carry the revision
        ov = case["dseed"] % 3 if case["values"] != "int-target" else 0
        ov = min(ov, n - 1)
        for t in range(n - ov, n):
            S[0][t] = S[0][t] + 0.25
        if ov:
            ctx.tag("update:revises-%d-known-points" % ov)
        y2, X2 = _frame(S, n - ov, n + n_upd, off, nx)
        before = len(lg)
        ok, _ = ctx.call("reduce:%s:update-exception" % strategy, f.update, y2, X2, update_params=(case["then"] == "update_refit"))
        if not ok:
            return
        cur_n = n + n_upd
        new_fits = [e for e in lg[before:] if e["op"] == "fit"]
        if case["then"] == "update_refit":
            if not _check_fits(ctx, new_fits, S, cur_n, wl, fh if (strategy != "recursive") else fh, strategy, scitype, "refit-on-update"):
                return
            fit_objs = [e["obj"] for e in new_fits]
        else:
            ctx.check("fit.rows", len(new_fits) == 0, "reduce:%s:refit-although-update_params-false" % strategy,
                      "regressor refitted although update_params=False", fits=len(new_fits))
    # ---- predict ---------------------------------------------------------------------
    before = len(lg)
    Xf = None
    if nx and strategy == "recursive":
        idx = pd.RangeIndex(off + cur_n, off + cur_n + hmax)
        Xf = pd.DataFrame({XNAMES[j]: S[j + 1][cur_n:cur_n + hmax] for j in range(nx)}, index=idx)
    ok, pred = ctx.call("reduce:%s:predict-exception" % strategy, f.predict, fha if fh_in in ("predict", "both") else None, Xf)
    if not ok:
        return
    calls = [e for e in lg[before:] if e["op"] == "predict"]
    start = cur_n - wl
    exp_forecast = None
    if strategy in ("direct", "multioutput"):
        ncalls = len(fh) if strategy == "direct" else 1
        ctx.check("predict.window", len(calls) == ncalls, "reduce:%s:number-of-predict-calls" % strategy, "unexpected number of regressor predict calls",
                  got=len(calls), expected=ncalls)
        Xe = [_window(S, start, wl, scitype)]
        for i, c in enumerate(calls):
            ctx.check("predict.window", _arr_eq(c["X"], Xe), "reduce:%s:predict-window-not-last-observations" % strategy,
                      "regressor was not given the last window_length observed values", call=i, got=np.asarray(c["X"]).ravel().tolist(),
                      expected=np.asarray(Xe).ravel().tolist())
            if strategy == "direct" and i < len(fit_objs):
                ctx.check("predict.forecast", c["obj"] == fit_objs[i], "reduce:direct:estimator-step-mismatch",
                          "the estimator used for step %d is not the one trained for that step" % fh[i], call=i)
        if strategy == "direct" and len(calls) == len(fh):
            exp_forecast = [float(c["out"][0, 0]) for c in calls]
        elif calls:
            exp_forecast = [float(v) for v in calls[0]["out"][0]]
        ctx.seen("predict.feedback")
    elif strategy == "recursive":
        ctx.check("predict.window", len(calls) == hmax, "reduce:recursive:number-of-predict-calls", "recursion length differs from max(fh)",
                  got=len(calls), expected=hmax)
        preds = []
        Sx = [list(v) for v in S]
        for i, c in enumerate(calls):
            # expected window: observed values then the i previous predictions as newest lags; exogenous known for the future
            tgt = [Sx[0][start + i + k] if start + i + k < cur_n else preds[start + i + k - cur_n] for k in range(wl)]
            rows = [tgt] + [[Sx[v][start + i + k] for k in range(wl)] for v in range(1, len(Sx))]
            Xe = [[x for r in rows for x in r]] if scitype == "tabular-regressor" else [rows]
            ctx.check("predict.feedback", _arr_eq(c["X"], Xe), "reduce:recursive:feedback-window-wrong",
                      "recursive step %d was not given the previous predictions as newest lags in order" % (i + 1), call=i,
                      got=np.asarray(c["X"]).ravel().tolist(), expected=np.asarray(Xe).ravel().tolist())
            preds.append(float(c["out"][0, 0]))
        if len(calls) == hmax:
            exp_forecast = [preds[h - 1] for h in fh]
        ctx.seen("predict.window")
    else:  # dirrec
        ctx.check("predict.window", len(calls) == len(fh), "reduce:dirrec:number-of-predict-calls", "unexpected number of predict calls",
                  got=len(calls), expected=len(fh))
        preds = []
        for i, c in enumerate(calls):
            Xe = [_window(S, start, wl, scitype, extra=preds[:i])]
            ctx.check("predict.feedback", _arr_eq(c["X"], Xe), "reduce:dirrec:feedback-window-wrong",
                      "dirrec step %d was not given the last window followed by the earlier predictions" % (i + 1), call=i,
                      got=np.asarray(c["X"]).ravel().tolist(), expected=np.asarray(Xe).ravel().tolist())
            if i < len(fit_objs):
                ctx.check("predict.forecast", c["obj"] == fit_objs[i], "reduce:dirrec:estimator-step-mismatch",
                          "the estimator used for step %d is not the one trained for that step" % fh[i], call=i)
            preds.append(float(c["out"][0, 0]))
        if len(calls) == len(fh):
            exp_forecast = preds
        ctx.seen("predict.window")
    if exp_forecast is not None:
        ctx.check("predict.forecast", list(pred.index) == [off + cur_n - 1 + h for h in fh] and _arr_eq(pred.values, exp_forecast),
                  "reduce:%s:forecast-not-regressor-output-for-step" % strategy, "returned forecast is not the regressor output for each step "
                  "(or is mis-indexed)", got=pred.values.tolist(), expected=exp_forecast, index=list(pred.index),
                  expected_index=[off + cur_n - 1 + h for h in fh])
    ctx.event(strategy=strategy, scitype=scitype, n=n, wl=wl, fh=fh, nx=nx, then=case["then"], n_fit_calls=len(fits),
              n_predict_calls=len(calls), forecast=pred.values.tolist())
    R = n - wl - (1 if strategy == "recursive" else hmax) + 1
    if R >= 2 and (wl >= 2 or fh != list(range(1, len(fh) + 1)) or nx or case["then"] != "none"):
        ctx.nontrivial = True
