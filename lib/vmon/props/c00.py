PID="C00"; LEVEL="exploration"; RULE="smoke"
def cases(tier, seed):
    for i in range(5): yield {"i": i}
def run_case(case, ctx):
    ctx.check("m", True, "k"); ctx.nontrivial = True; ctx.event(i=case["i"])
