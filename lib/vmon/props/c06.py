"""C06 - forecast accuracy metrics equal their published definitions and obey their laws.

Reference formulas are written in plain Python floats (math module, loops), independent of
numpy reductions and scikit-learn; laws are separate monitors on the same calls."""
import math

import numpy as np
import pandas as pd

PID = "C06"
LEVEL = "exploration"
RULE = ("cases = (metric function, n steps, n outputs, container, horizon weights on/off, options, multioutput mode, value "
        "family, data seed); data are drawn inside the case from the data seed; non-trivial: n >= 3 and the reference value "
        "is finite and non-zero and no median/threshold tie flagged ambiguous; distinct = distinct case dict")
ANCHOR_FILES = ["sktime/performance_metrics/forecasting/_functions.py", "sktime/performance_metrics/forecasting/_classes.py"]
REQUIRED_REACH = ["_functions.py:_percentage_error", "_functions.py:_relative_error", "_functions.py:_asymmetric_error",
                  "_functions.py:_weighted_geometric_mean", "_functions.py:mean_absolute_scaled_error",
                  "_functions.py:median_squared_scaled_error", "_functions.py:relative_loss"]
REQUIRED_MONITORS = ["formula", "law.nonneg", "law.perfect", "law.swap", "law.range", "law.rescale", "class==function"]
NOT_COVERED = ["non-finite inputs", "string multioutput values other than raw_values/uniform_average"]
ASSUMPTIONS = ["textbook formulas as given in the function docstrings (Hyndman & Koehler 2006); weighted median = inverted-CDF "
               "weighted 50th percentile (scikit-learn's _weighted_percentile, named by the code); for scaled/relative-loss "
               "metrics with averaged multi-output both 'ratio of averages' and 'average of ratios' are accepted"]
JOBS = {"quick": 4, "thorough": 16}
EPS = float(np.finfo(np.float64).eps)

FUNCS = {
    # name: (kind, agg, extra)
    "mean_absolute_error": ("abs", "mean", None),
    "mean_squared_error": ("sq", "mean", None),
    "median_absolute_error": ("abs", "median", None),
    "median_squared_error": ("sq", "median", None),
    "mean_absolute_percentage_error": ("pabs", "mean", None),
    "median_absolute_percentage_error": ("pabs", "median", None),
    "mean_squared_percentage_error": ("psq", "mean", None),
    "median_squared_percentage_error": ("psq", "median", None),
    "mean_absolute_scaled_error": ("abs", "mean", "scaled"),
    "median_absolute_scaled_error": ("abs", "median", "scaled"),
    "mean_squared_scaled_error": ("sq", "mean", "scaled"),
    "median_squared_scaled_error": ("sq", "median", "scaled"),
    "mean_relative_absolute_error": ("rabs", "mean", "bench"),
    "median_relative_absolute_error": ("rabs", "median", "bench"),
    "geometric_mean_relative_absolute_error": ("rabs", "gmean", "bench"),
    "geometric_mean_relative_squared_error": ("rsq", "gmean", "bench"),
    "mean_asymmetric_error": ("asym", "mean", None),
    "relative_loss": ("loss", "ratio", "bench"),
}
CLASSES = {
    "mean_absolute_error": "MeanAbsoluteError", "mean_squared_error": "MeanSquaredError",
    "median_absolute_error": "MedianAbsoluteError", "median_squared_error": "MedianSquaredError",
    "mean_absolute_percentage_error": "MeanAbsolutePercentageError",
    "median_absolute_percentage_error": "MedianAbsolutePercentageError",
    "mean_squared_percentage_error": "MeanSquaredPercentageError",
    "median_squared_percentage_error": "MedianSquaredPercentageError",
    "mean_absolute_scaled_error": "MeanAbsoluteScaledError", "median_absolute_scaled_error": "MedianAbsoluteScaledError",
    "mean_squared_scaled_error": "MeanSquaredScaledError", "median_squared_scaled_error": "MedianSquaredScaledError",
    "mean_relative_absolute_error": "MeanRelativeAbsoluteError", "median_relative_absolute_error": "MedianRelativeAbsoluteError",
    "geometric_mean_relative_absolute_error": "GeometricMeanRelativeAbsoluteError",
    "geometric_mean_relative_squared_error": "GeometricMeanRelativeSquaredError",
    "mean_asymmetric_error": "MeanAsymmetricError", "relative_loss": "RelativeLoss",
}
SQRT_OPT = {"mean_squared_error", "median_squared_error", "mean_squared_percentage_error", "median_squared_percentage_error",
            "mean_squared_scaled_error", "median_squared_scaled_error", "geometric_mean_relative_squared_error"}
SYM_OPT = {"mean_absolute_percentage_error", "median_absolute_percentage_error", "mean_squared_percentage_error",
           "median_squared_percentage_error"}
FAMILIES = ["normal", "zeros_true", "zeros_pred", "signs", "perfect", "perfect_bench", "const_train", "tiny", "huge", "ints",
            "bench_eq_true_some", "bench_hair"]
LOSS_FUNCS = ["mean_absolute_error", "mean_squared_error", "median_absolute_error", "mean_absolute_percentage_error"]


def cases(tier, seed):
    rng = np.random.default_rng([seed, 6])
    per = 300 if tier == "quick" else 12000
    for fn in FUNCS:
        for r in range(per):
            n = int(rng.choice([1, 2, 3, 4, 5, 6, 7, 9, 12, 20]))
            k = int(rng.choice([1, 1, 2, 3]))
            opts = {}
            if fn in SQRT_OPT:
                opts["square_root"] = bool(rng.random() < 0.5)
            if fn in SYM_OPT:
                opts["symmetric"] = bool(rng.random() < 0.5)
            if FUNCS[fn][2] == "scaled":
                opts["sp"] = int(rng.integers(1, 5))
            if fn == "mean_asymmetric_error":
                opts["asymmetric_threshold"] = float(rng.choice([0.0, 0.0, 0.5, -1.0, 2.0]))
                opts["left_error_function"] = str(rng.choice(["squared", "absolute"]))
                opts["right_error_function"] = str(rng.choice(["squared", "absolute"]))
            if fn == "relative_loss":
                opts["relative_loss_function"] = str(rng.choice(LOSS_FUNCS))
            mo = "uniform_average"
            if k > 1:
                mo = ["uniform_average", "raw_values", "weights"][int(rng.integers(0, 3))]
            yield {"fn": fn, "n": n, "k": k, "cont": ["ndarray", "pandas"][int(rng.integers(0, 2))],
                   "weights": bool(rng.random() < 0.5), "opts": opts, "multioutput": mo,
                   "family": FAMILIES[(r + int(rng.integers(0, 3))) % len(FAMILIES)], "dseed": int(rng.integers(0, 2 ** 31))}


# ---------------------------------------------------------------------------------
# reference (plain floats)
# ---------------------------------------------------------------------------------
def _median(v):
    s = sorted(v)
    m = len(s)
    return s[m // 2] if m % 2 else 0.5 * (s[m // 2 - 1] + s[m // 2])


def _wmedian(v, w):
    """inverted-CDF weighted 50th percentile; returns (value, ambiguous)."""
    order = sorted(range(len(v)), key=lambda i: v[i])
    tot = math.fsum(w)
    half = 0.5 * tot
    cum = 0.0
    amb = False
    res = v[order[-1]]
    found = False
    for i in order:
        cum += w[i]
        if abs(cum - half) <= 1e-9 * tot:
            amb = True
        if not found and cum >= half:
            res = v[i]
            found = True
    return res, amb


def _agg(vals, w, how):
    amb = False
    if how == "mean":
        if w is None:
            return math.fsum(vals) / len(vals), amb
        return math.fsum(a * b for a, b in zip(vals, w)) / math.fsum(w), amb
    if how == "median":
        if w is None:
            s = sorted(vals)
            return _median(vals), amb
        return _wmedian(vals, w)
    if how == "gmean":
        vv = [EPS if x == 0.0 else x for x in vals]
        if w is None:
            return math.exp(math.fsum(math.log(x) for x in vv) / len(vv)), amb
        return math.exp(math.fsum(b * math.log(x) for x, b in zip(vv, w)) / math.fsum(w)), amb
    raise ValueError(how)


def _pct(t, p, sym):
    if sym:
        return 2.0 * abs(t - p) / max(abs(t) + abs(p), EPS)
    return (t - p) / max(abs(t), EPS)


def _rel(t, p, b):
    d = t - b
    den = max(d, EPS) if d >= 0 else min(d, -EPS)
    return (t - p) / den


def _col_errors(kind, t, p, b, opts):
    """per-time-point error terms of one output column + ambiguity flag"""
    amb = False
    if kind == "abs":
        return [abs(x - y) for x, y in zip(t, p)], amb
    if kind == "sq":
        return [(x - y) ** 2 for x, y in zip(t, p)], amb
    if kind == "pabs":
        return [abs(_pct(x, y, opts.get("symmetric", True))) for x, y in zip(t, p)], amb
    if kind == "psq":
        return [_pct(x, y, opts.get("symmetric", True)) ** 2 for x, y in zip(t, p)], amb
    if kind == "rabs":
        return [abs(_rel(x, y, z)) for x, y, z in zip(t, p, b)], amb
    if kind == "rsq":
        return [_rel(x, y, z) ** 2 for x, y, z in zip(t, p, b)], amb
    if kind == "asym":
        th = opts.get("asymmetric_threshold", 0.0)
        f = {"squared": lambda e: e * e, "absolute": abs}
        out = []
        for x, y in zip(t, p):
            e = x - y
            if abs(e - th) <= 1e-12 * max(1.0, abs(th)) and e != th:
                amb = True
            out.append(f[opts.get("left_error_function", "squared")](e) if e < th
                       else f[opts.get("right_error_function", "absolute")](e))
        return out, amb
    raise ValueError(kind)


def _simple_loss(name, t, p, w, opts):
    kind, agg, _ = FUNCS[name]
    errs, amb = _col_errors(kind, t, p, None, opts)
    v, a2 = _agg(errs, w, agg)
    return v, amb or a2


def reference(fn, T, P, B, TR, w, opts, mo, mow):
    """T,P,B: list of columns (lists of floats); TR: list of training columns.  Returns (list of accepted values, amb)."""
    kind, agg, extra = FUNCS[fn]
    k = len(T)
    amb = False
    per_col, num_col, den_col = [], [], []
    for j in range(k):
        if fn == "relative_loss":
            lf = opts.get("relative_loss_function", "mean_absolute_error")
            a, a1 = _simple_loss(lf, T[j], P[j], w, {})
            b, a2 = _simple_loss(lf, T[j], B[j], w, {})
            amb |= a1 or a2
            num_col.append(a)
            den_col.append(b)
            per_col.append(a / max(b, EPS))
            continue
        errs, a0 = _col_errors(kind, T[j], P[j], B[j] if B else None, opts)
        v, a1 = _agg(errs, w, agg)
        amb |= a0 or a1
        if extra == "scaled":
            sp = opts.get("sp", 1)
            tr = TR[j]
            base_kind = "abs" if kind == "abs" else "sq"
            nerrs, _ = _col_errors(base_kind, tr[sp:], tr[:-sp], None, {})
            nv, a2 = _agg(nerrs, None, agg)
            amb |= a2
            num_col.append(v)
            den_col.append(nv)
            per_col.append(v / max(nv, EPS))
        else:
            if opts.get("square_root") and kind in ("sq", "psq", "rsq"):
                v = math.sqrt(v)
            per_col.append(v)

    def comb(vals):
        if mo == "raw_values":
            return list(vals)
        if mo == "uniform_average":
            return math.fsum(vals) / len(vals)
        return math.fsum(a * b for a, b in zip(vals, mow)) / math.fsum(mow)

    def fin(x):
        if extra == "scaled" and opts.get("square_root") and kind == "sq":
            return [math.sqrt(v) for v in x] if isinstance(x, list) else math.sqrt(x)
        return x

    if extra == "scaled" or fn == "relative_loss":
        if mo == "raw_values":
            return [fin(per_col)], amb
        ratio_of_avgs = comb(num_col) / max(comb(den_col), EPS)
        if extra == "scaled" and opts.get("square_root") and kind == "sq":
            return [math.sqrt(ratio_of_avgs), comb([math.sqrt(v) for v in per_col]), math.sqrt(comb(per_col))], amb
        return [ratio_of_avgs, comb(per_col)], amb
    return [comb(per_col)], amb


# ---------------------------------------------------------------------------------
def _data(case):
    rng = np.random.default_rng([case["dseed"], 66])
    n, k, fam = case["n"], case["k"], case["family"]
    sp = case["opts"].get("sp", 1)
    ntr = int(rng.integers(sp + 1, sp + 12))
    scale = {"tiny": 1e-9, "huge": 1e9}.get(fam, 1.0) * float(rng.choice([1.0, 1.0, 10.0, 0.1]))
    T = rng.normal(3.0, 2.0, size=(n, k)) * scale
    P = T + rng.normal(0.0, 1.0, size=(n, k)) * scale
    B = T + rng.normal(0.0, 1.5, size=(n, k)) * scale
    TR = rng.normal(3.0, 2.0, size=(ntr, k)) * scale
    if fam == "zeros_true":
        T[rng.random((n, k)) < 0.5] = 0.0
    elif fam == "zeros_pred":
        P[rng.random((n, k)) < 0.5] = 0.0
        T[rng.random((n, k)) < 0.2] = 0.0
    elif fam == "signs":
        T = rng.normal(0.0, 2.0, size=(n, k))
        P = rng.normal(0.0, 2.0, size=(n, k))
        B = rng.normal(0.0, 2.0, size=(n, k))
    elif fam == "perfect":
        P = T.copy()
    elif fam == "perfect_bench":
        B = T.copy()
    elif fam == "const_train":
        TR[:] = TR[0]
    elif fam == "ints":
        T, P, B, TR = (np.round(a * 2.0) for a in (T, P, B, TR))
    elif fam == "bench_eq_true_some":
        m = rng.random((n, k)) < 0.4
        B[m] = T[m]
        m2 = rng.random((n, k)) < 0.3
        P[m2] = T[m2]
    elif fam == "bench_hair":
        # benchmark within machine epsilon of the truth (both signs): exercises the signed eps clamp
        T = np.round(T) * (rng.random((n, k)) < 0.5)
        B = T + rng.choice([-1e-20, 1e-20, -3e-17, 3e-17, 0.0], size=(n, k)) * (T == 0) + rng.normal(0, 1, (n, k)) * (rng.random((n, k)) < 0.3)
    w = None
    if case["weights"]:
        w = rng.uniform(0.1, 3.0, size=n)
        if rng.random() < 0.3:
            w = np.round(w) + 1.0
    mow = None
    if case["multioutput"] == "weights":
        mow = rng.uniform(0.2, 2.0, size=k)
    return T, P, B, TR, w, mow


def _wrap(a, cont, start):
    if cont == "ndarray":
        return a if a.shape[1] > 1 else a[:, 0]
    idx = pd.RangeIndex(start, start + a.shape[0])
    if a.shape[1] == 1:
        return pd.Series(a[:, 0], index=idx)
    return pd.DataFrame(a, index=idx, columns=["c%d" % j for j in range(a.shape[1])])


def _close(got, ref, rtol=1e-8):
    got = np.asarray(got, dtype=float).ravel()
    ref = np.asarray(ref, dtype=float).ravel()
    if got.shape != ref.shape:
        return False
    return bool(np.all(np.abs(got - ref) <= rtol * np.maximum(np.abs(ref), 1e-300) + 1e-300))


def run_case(case, ctx):
    import sktime.performance_metrics.forecasting as M

    fn = case["fn"]
    kind, agg, extra = FUNCS[fn]
    opts = dict(case["opts"])
    T, P, B, TR, w, mow = _data(case)
    n, k = T.shape
    cont = case["cont"]
    ntr = TR.shape[0]
    if case["family"] == "ints" and case["dseed"] % 2 == 0:
        # integer-typed arguments (counts), not only integer values: the metrics are real-valued
        yt, yp, yb, ytr = (_wrap(a.astype(np.int64), cont, st) for a, st in ((T, ntr), (P, ntr), (B, ntr), (TR, 0)))
        ctx.tag("integer-typed-arguments")
    else:
        yt, yp, yb, ytr = _wrap(T, cont, ntr), _wrap(P, cont, ntr), _wrap(B, cont, ntr), _wrap(TR, cont, 0)
    mo = case["multioutput"]
    moarg = mo if mo != "weights" else mow
    f = getattr(M, fn)

    def call(yt_, yp_, yb_, ytr_, o=None, mo_=moarg, w_=w):
        kw = dict(o if o is not None else opts)
        if "relative_loss_function" in kw:
            kw["relative_loss_function"] = getattr(M, kw["relative_loss_function"])
        if extra == "scaled":
            kw["y_train"] = ytr_
        if extra == "bench":
            kw["y_pred_benchmark"] = yb_
        return f(yt_, yp_, horizon_weight=w_, multioutput=mo_, **kw)

    ok, got = ctx.call("function:exception:" + fn, call, yt, yp, yb, ytr)
    if not ok:
        return
    cols = lambda A: [[float(x) for x in A[:, j]] for j in range(A.shape[1])]  # noqa
    wl = None if w is None else [float(x) for x in w]
    refs, amb = reference(fn, cols(T), cols(P), cols(B), cols(TR), wl, opts, mo, None if mow is None else [float(x) for x in mow])
    ctx.event(fn=fn, n=n, k=k, family=case["family"], opts=opts, weights=wl is not None, got=np.asarray(got, dtype=float).ravel().tolist()[:3],
              ref=np.asarray(refs[0], dtype=float).ravel().tolist()[:3])
    if amb:
        ctx.ambiguous += 1
    else:
        ctx.check("formula", any(_close(got, r) for r in refs), "formula:%s%s%s" % (fn, ":weighted" if w is not None else "",
                  ":multi" if k > 1 else ""), "%s differs from its definition" % fn, got=np.asarray(got, dtype=float).ravel().tolist(),
                  reference=refs, opts=opts, n=n, k=k, family=case["family"])
    g = np.asarray(got, dtype=float).ravel()
    # --- laws -----------------------------------------------------------------------
    ctx.check("law.nonneg", bool(np.all(g >= 0.0)), "law:negative-loss:" + fn, "loss is negative", got=g.tolist())
    okp, gp = ctx.call("function:exception:" + fn, call, yt, yt, yb, ytr)
    if okp:
        gp = np.asarray(gp, dtype=float).ravel()
        if agg == "gmean":
            floor = math.sqrt(EPS) if (opts.get("square_root") and kind == "rsq") else EPS
            ctx.check("law.perfect", _close(gp, np.full(gp.shape, floor)), "law:perfect-forecast-not-eps-floor:" + fn,
                      "geometric-mean metric of a perfect forecast is not its eps floor", got=gp.tolist(), floor=floor)
        elif fn == "mean_asymmetric_error" and opts.get("asymmetric_threshold", 0.0) != 0.0:
            ctx.check("law.perfect", bool(np.all(gp == 0.0)), "law:perfect-forecast-not-zero:" + fn, "perfect forecast not 0", got=gp.tolist())
        else:
            ctx.check("law.perfect", bool(np.all(gp == 0.0)), "law:perfect-forecast-not-zero:" + fn,
                      "loss of a perfect forecast is not 0", got=gp.tolist())
    if kind in ("pabs", "psq") and opts.get("symmetric", True):
        oks, gs = ctx.call("function:exception:" + fn, call, yp, yt, yb, ytr)
        if oks and not amb:
            ctx.check("law.swap", _close(gs, g), "law:symmetric-not-swap-invariant:" + fn,
                      "symmetric percentage error changes when truth and forecast are swapped", got=g.tolist(), swapped=np.asarray(gs).ravel().tolist())
        hi = 2.0 if kind == "pabs" or opts.get("square_root") else 4.0
        ctx.check("law.range", bool(np.all(g <= hi * (1 + 1e-12))), "law:symmetric-out-of-range:" + fn,
                  "symmetric percentage error outside its range", got=g.tolist(), bound=hi)
    if extra == "scaled":
        c = [1e-3, 7.0, 1e3][case["dseed"] % 3]
        sp_ = opts.get("sp", 1)
        bk = "abs" if kind == "abs" else "sq"
        dens = []
        for col in cols(TR):
            for f_ in (1.0, c):
                cc_ = [x * f_ for x in col]
                dens.append(_agg(_col_errors(bk, cc_[sp_:], cc_[:-sp_], None, {})[0], None, agg)[0])
        flat = min(dens) <= 1e4 * EPS  # the documented eps clamp of the denominator is active: no invariance expected
        okr, gr = ctx.call("function:exception:" + fn, call, _wrap(T * c, cont, ntr), _wrap(P * c, cont, ntr), yb, _wrap(TR * c, cont, 0))
        if okr and not flat and not amb:
            ctx.check("law.rescale", _close(gr, g, 1e-7), "law:scaled-error-not-scale-invariant:" + fn,
                      "scaled error changes under a common positive rescaling", got=g.tolist(), rescaled=np.asarray(gr).ravel().tolist(), factor=c)
        elif flat:
            ctx.tag("rescale-skipped-flat-training")
    # --- class wrapper equals function with the same options ---------------------------
    if w is None and mo == "uniform_average":
        cls = getattr(M, CLASSES[fn])
        copts = dict(opts)
        if "relative_loss_function" in copts:
            copts["relative_loss_function"] = getattr(M, copts["relative_loss_function"])
        extra_kw = {}
        if extra == "scaled":
            extra_kw["y_train"] = ytr
        if extra == "bench":
            extra_kw["y_pred_benchmark"] = yb
        try:
            obj = cls(**copts)
            gc = obj(yt, yp, **extra_kw)
        except Exception as e:  # noqa
            ctx.check("class==function", False, "class-wrapper:%s:raises-%s" % (CLASSES[fn], type(e).__name__),
                      "metric class cannot be evaluated with the options of its function: %r" % e, opts=opts)
        else:
            ctx.check("class==function", _close(gc, g, 1e-12), "class-wrapper:%s:differs-from-function" % CLASSES[fn],
                      "metric class result differs from its function with the same options", cls=float(np.asarray(gc).ravel()[0]),
                      function=g.tolist(), opts=opts)
            ctx.check("class==function", getattr(obj, "greater_is_better", None) is False and obj.name == CLASSES[fn],
                      "class-wrapper:%s:metadata" % CLASSES[fn], "name / greater_is_better of the wrapper wrong")
    r0 = np.asarray(refs[0], dtype=float).ravel()
    if n >= 3 and not amb and np.all(np.isfinite(r0)) and np.any(r0 != 0.0):
        ctx.nontrivial = True
