"""C12 - applying an estimator is pure, reproducible and independent of scheduling.

Snapshot monitors (deep digests of the caller's data before / after every fit and apply-type
call), repetition / interleaving monitors, pickle round trips, and a schedule monitor: equal
estimators are fitted with n_jobs in {None, 1, 2, 4} under joblib's threading backend while
seeded delays are injected at the task boundaries so that completion order is permuted."""
import pickle
import threading
import time

import numpy as np
import pandas as pd

from vmon import pzoo, zoo
from vmon.contracts import _data_digest, _digest_equal
from vmon.props import c13

PID = "C12"
LEVEL = "exploration"
RULE = ("cases = (series transformer x input kind {clean, outliers, NaNs} x {Series, DataFrame}), (forecaster spec incl. composites), "
        "(panel estimator x container {nested Series cells, nested array cells, 3-d array}), (parallel estimator x n_jobs in {None,1,2,4} x "
        "delay seed); per case: data snapshots around fit and every apply-type method, repeated and interleaved apply calls, pickle round "
        "trip; non-trivial: every case in which at least one apply-type call returned a result; distinct = distinct case dict")
ANCHOR_FILES = ["sktime/transformations/series/*.py", "sktime/transformations/series/detrend/*.py", "sktime/transformations/panel/*.py",
                "sktime/forecasting/base/_sktime.py", "sktime/forecasting/base/_meta.py", "sktime/series_as_features/base/estimators/interval_based/_tsf.py",
                "sktime/classification/interval_based/*.py", "sktime/classification/dictionary_based/_boss.py", "sktime/utils/validation/__init__.py",
                "sktime/forecasting/ets.py"]
REQUIRED_REACH = ["outlier_detection.py:_hampel_filter", "impute.py:Imputer.transform", "boxcox.py:BoxCoxTransformer.transform", "_meta.py:_HeterogenousEnsembleForecaster._fit_forecasters",
                  "_tsf.py:_fit_estimator", "_tsf.py:TimeSeriesForestClassifier.predict_proba", "_boss.py:BOSSEnsemble.predict_proba"]
REQUIRED_MONITORS = ["fit.caller-data-unchanged", "apply.caller-data-unchanged", "apply.repeatable", "apply.interleaved", "pickle", "n_jobs", "schedule.distinct-completion-orders", "equal-params"]
NOT_COVERED = ["thread interleavings beyond task completion order (tasks share no mutable state in the anchored code)", "process-based joblib backends",
               "estimators constructed with random_state=None (the statement quantifies over equal random_state)"]
ASSUMPTIONS = ["the class of an equal-valued index object is not part of the caller's data (statsmodels adapters swap an integer Index for an equal RangeIndex)"]
JOBS = {"quick": 8, "thorough": 16}
CASE_TIMEOUT = {"quick": 240.0, "thorough": 400.0}
PARALLEL = ["tsf", "tsfreg", "rise", "stsf", "ensemble-forecaster", "stack-forecaster", "autoets", "grid", "boss", "cboss", "iboss", "sfa", "param-extractor", "rand",
            "online-forecaster", "multiplex-forecaster"]
# not runnable here: ComposableTimeSeriesForest* (abstract under the installed scikit-learn), FeatureUnion (private scikit-learn helper with another signature)
FORECASTERS = zoo.LEAVES + zoo.SLOW_LEAVES + [
    ["ensemble", {"aggfunc": "mean"}, [["naive", {"strategy": "last"}], ["poly", {"degree": 1}]]],
    ["pipeline", {}, [["deseason", {"sp": 3, "model": "additive"}], ["detrend", {"degree": 1}]], ["naive", {"strategy": "mean", "window_length": 3}]],
    ["pipeline", {}, [["log", {}]], ["poly", {"degree": 1}]],
    ["pipeline", {}, [["detrend", {"default": True}]], ["naive", {"strategy": "mean", "window_length": 4}]],
    ["multiplex", {"selected": 1}, [["naive", {"strategy": "last"}], ["poly", {"degree": 1}]]],
    ["stack", {"reg": "lin"}, [["naive", {"strategy": "last"}], ["poly", {"degree": 1}]]],
    ["grid", {"grid": {"strategy": ["last", "mean"]}, "cv": ["sliding", {"fh": [1], "window_length": 8, "step_length": 4}], "scoring": None}, ["naive", {}]],
    ["online", {}, [["naive", {"strategy": "last"}], ["naive", {"strategy": "mean", "window_length": 3}]]],
]


def cases(tier, seed):
    rng = np.random.default_rng([seed, 12])
    reps = 2 if tier == "quick" else 30
    for r in range(reps):
        for cfg in c13.CONFIGS + [["imputer", {"method": "random", "random_state": 3}], ["imputer", {"method": "constant", "value": 1.0}], ["imputer", {"method": "ffill"}]]:
            for kind in ("clean", "outliers", "nans"):
                if kind == "nans" and cfg[0] not in ("imputer", "hampel"):
                    continue
                yield {"kind": "series-t", "cfg": cfg, "data": kind, "frame": bool(rng.random() < 0.4), "off": int(rng.choice([0, 7])), "dseed": int(rng.integers(0, 2 ** 31))}
        for spec in FORECASTERS:
            yield {"kind": "forecaster", "spec": spec, "withX": bool(spec[0] in ("naive",) and rng.random() < 0.5), "dseed": int(rng.integers(0, 2 ** 31)), "idx": "range" if rng.random() < 0.5 else "int"}
        for name in pzoo.TRANSFORMERS + pzoo.CLASSIFIERS + pzoo.REGRESSORS:
            yield {"kind": "panel", "est": name, "container": ["S", "A", "np"][int(rng.integers(0, 3))], "dseed": int(rng.integers(0, 2 ** 31)), "eseed": int(rng.integers(0, 50))}
    for r in range(3 if tier == "quick" else 40):
        for name in PARALLEL:
            yield {"kind": "njobs", "est": name, "dseed": int(rng.integers(0, 2 ** 31)), "eseed": int(rng.integers(0, 50)), "delay_seed": int(rng.integers(0, 10 ** 6)),
                   "classes": int(rng.integers(2, 4)), "data": ["synthetic", "bundled"][int(rng.integers(0, 2))]}


def _eq(a, b, tol=0.0):
    """deep equality of apply-type results"""
    if isinstance(a, tuple) and isinstance(b, tuple):
        return len(a) == len(b) and all(_eq(x, y, tol) for x, y in zip(a, b))
    ca, cb = pzoo.canon(a) if not isinstance(a, (pd.Series,)) or a.dtype == object else None, None
    if isinstance(a, pd.Series) and a.dtype != object:
        return isinstance(b, pd.Series) and list(a.index) == list(b.index) and bool(np.allclose(np.asarray(a, dtype=float), np.asarray(b, dtype=float), rtol=tol, atol=tol, equal_nan=True))
    if isinstance(a, pd.DataFrame) and not any(isinstance(c, (pd.Series, np.ndarray)) for c in (a.iloc[0] if len(a) else [])) and a.dtypes.map(lambda d: d.kind in "fiub").all():
        return isinstance(b, pd.DataFrame) and a.shape == b.shape and list(a.index) == list(b.index) and bool(np.allclose(a.to_numpy(dtype=float), b.to_numpy(dtype=float), rtol=tol, atol=tol, equal_nan=True))
    ca, cb = pzoo.canon(a), pzoo.canon(b)
    return len(ca) == len(cb) and all(pzoo.rows_equal(x, y, max(tol, 0.0)) if not isinstance(x, tuple) else x == y for x, y in zip(ca, cb))


def run_case(case, ctx):
    import warnings
    warnings.simplefilter("ignore")
    {"series-t": _series_t, "forecaster": _forecaster, "panel": _panel, "njobs": _njobs}[case["kind"]](case, ctx)
    for m in REQUIRED_MONITORS:
        ctx.seen(m, 0)


def _guarded(ctx, name, monitor, key, fn, *datas):
    """call fn(); check that none of `datas` changed; returns (ok, result)"""
    before = [_data_digest(d) for d in datas]
    ok, out = ctx.call("%s:exception:%s" % (monitor, name), fn)
    same = all(_digest_equal(b, _data_digest(d)) for b, d in zip(before, datas))
    ctx.check(monitor, same, key, "the caller's data were modified")
    return ok, out


def _series_t(case, ctx):
    cfg = case["cfg"]
    kind = cfg[0]
    rng = np.random.default_rng([case["dseed"], 1212])
    n = int(rng.integers(20, 40))
    t = np.arange(n)
    v = 60 + 0.5 * t + 5 * np.sin(2 * np.pi * t / max(cfg[1].get("sp", 4), 2)) + rng.normal(0, 1, n)
    if case["data"] == "outliers":
        v[rng.integers(2, n - 2, size=2)] += 90.0
    if case["data"] == "nans":
        m = rng.random(n) < 0.2
        m[0] = m[-1] = False
        v[m] = np.nan
    idx = pd.RangeIndex(case["off"], case["off"] + n)
    multi_ok = kind in ("log", "cos", "imputer", "hampel", "scaler")
    z = pd.DataFrame({"a": v, "b": v[::-1] + 1.0}, index=idx) if (case["frame"] and multi_ok) else pd.Series(v, index=idx)
    name = "%s%s" % (kind, ":frame" if isinstance(z, pd.DataFrame) else "")
    tr = c13.build(cfg) if kind != "imputer" else zoo.build_transformer(cfg)
    ok, _ = _guarded(ctx, name, "fit.caller-data-unchanged", "purity:fit:%s:mutates-caller-data" % name, lambda: tr.fit(z), z)
    if not ok:
        return
    state0 = pickle.dumps(tr)
    ok, a = _guarded(ctx, name, "apply.caller-data-unchanged", "purity:transform:%s:mutates-caller-data" % name, lambda: tr.transform(z), z)
    if not ok:
        return
    ok, b = ctx.call("transform:exception:" + name, tr.transform, z)
    if ok:
        ctx.check("apply.repeatable", _eq(a, b), "repeat:transform:%s:second-call-differs" % name, "repeating transform returned another result")
    if hasattr(tr, "inverse_transform") and kind in c13.INVERTIBLE:
        ok, inv = _guarded(ctx, name, "apply.caller-data-unchanged", "purity:inverse_transform:%s:mutates-caller-data" % name, lambda: tr.inverse_transform(a), a)
        ok2, c = ctx.call("transform:exception:" + name, tr.transform, z)
        if ok and ok2:
            ctx.check("apply.interleaved", _eq(a, c), "interleave:%s:transform-after-inverse_transform-differs" % name, "transform after an interleaved inverse_transform differs")
    ok, tr2 = ctx.call("pickle:exception:" + name, lambda: pickle.loads(pickle.dumps(tr)))
    if ok:
        ok, d = ctx.call("transform:exception:" + name, tr2.transform, z)
        if ok:
            ctx.check("pickle", _eq(a, d), "pickle:%s:restored-copy-differs" % name, "a pickled and restored transformer gives another result")
    # apply-type calls leave no trace: a long-lived instance applied to a sequence of different inputs (same end points and
    # length but other time points in between, sub-stretches) returns for each what a copy restored from the state right after
    # fit returns when it sees only that input
    gap_ok = kind not in ("hampel", "acf", "pacf", "imputer", "detrend_naive") and not isinstance(z, pd.DataFrame)
    others = []
    if gap_ok and n >= 8:
        keepA = [i for i in range(n) if i not in (3, 6)]
        keepB = [i for i in range(n) if i not in (2, 5)]
        others += [z.iloc[keepA], z.iloc[keepB], z.iloc[keepA]]
    others += [z.iloc[: max(14, n // 2)], z.iloc[n - max(14, n // 2):], z]
    for qi, q in enumerate(others):
        ok1, r_long = ctx.call("transform:exception:" + name, tr.transform, q.copy())
        try:
            fresh = pickle.loads(state0)
        except Exception:  # noqa
            break
        ok2, r_fresh = ctx.call("transform:exception:" + name, fresh.transform, q.copy())
        if ok1 and ok2:
            ctx.check("apply.interleaved", _eq(r_long, r_fresh), "interleave:%s:transform-depends-on-earlier-apply-calls" % name,
                      "transform of a long-lived instance differs from that of a copy that has seen no other apply-type call", call=qi, n_points=len(q))
    # equal parameters + equal data => equal results: an instance with an earlier life (fitted on another series) fitted again on z
    if not (kind == "imputer" and cfg[1].get("method") == "random"):
        u = c13.build(cfg) if kind != "imputer" else zoo.build_transformer(cfg)
        m0 = int(rng.integers(18, 50))
        v0 = 30 + 0.2 * np.arange(m0) + 3 * np.sin(2 * np.pi * (np.arange(m0) + 2) / max(cfg[1].get("sp", 4), 2)) + rng.normal(0, 1, m0)
        z0 = pd.DataFrame({"a": v0, "b": v0[::-1] + 1.0}, index=pd.RangeIndex(5, 5 + m0)) if isinstance(z, pd.DataFrame) else pd.Series(v0, index=pd.RangeIndex(5, 5 + m0))
        try:
            u.fit(z0)
            u.transform(z0)
            used = True
        except Exception:  # noqa
            used = False
        if used and not (kind == "imputer" and cfg[1].get("method") == "random"):
            # instances are separate: fitting ANOTHER instance of the same class on other data does not change what this one returns
            ok, a_again = ctx.call("transform:exception:" + name, tr.transform, z)
            if ok:
                ctx.check("apply.interleaved", _eq(a, a_again), "isolation:%s:changed-by-fitting-another-instance" % name,
                          "transform of a fitted instance changed after another instance of the same class was fitted on other data")
        if used:
            ok, _ = ctx.call("fit:exception:%s:refit-of-used-instance" % name, u.fit, z)
            if ok:
                ok, e = ctx.call("transform:exception:%s:refit-of-used-instance" % name, u.transform, z)
                if ok:
                    ctx.check("equal-params", _eq(a, e, 1e-12), "equal-params:%s:refitted-used-instance-differs-from-fresh" % name,
                              "a transformer that was fitted on another series before, fitted again on the same data, transforms differently from a fresh one")
    ctx.tag("t:" + kind)
    ctx.event(kind="series-t", transformer=name, data=case["data"])
    ctx.nontrivial = True


def _forecaster(case, ctx):
    spec = case["spec"]
    rng = np.random.default_rng([case["dseed"], 1213])
    n = zoo.min_length(spec) + int(rng.integers(10, 25))
    y = zoo.make_series(rng, n, positive=True, off=int(rng.choice([0, 9])), index=case["idx"], integer=case["dseed"] % 5 == 0)
    X = pd.DataFrame({"x": rng.normal(0, 1, n)}, index=y.index) if case["withX"] else None
    name = zoo.describe(spec)
    f = zoo.build(spec)
    fh = [1, 2, 3]
    ok, _ = _guarded(ctx, name, "fit.caller-data-unchanged", "purity:fit:%s:mutates-caller-data" % spec[0], lambda: f.fit(y, X, fh=fh), y, X)
    if not ok:
        return
    Xf = pd.DataFrame({"x": rng.normal(0, 1, 3)}, index=pd.RangeIndex(y.index[-1] + 1, y.index[-1] + 4)) if case["withX"] else None
    ok, a = _guarded(ctx, name, "apply.caller-data-unchanged", "purity:predict:%s:mutates-caller-data" % spec[0], lambda: f.predict(fh, Xf), Xf)
    if not ok:
        return
    ok, b = ctx.call("predict:exception:" + spec[0], f.predict, fh, Xf)
    if ok:
        ctx.check("apply.repeatable", _eq(a, b, 1e-12), "repeat:predict:%s:second-call-differs" % spec[0], "repeating predict returned another result",
                  first=np.asarray(a).tolist(), second=np.asarray(b).tolist())
    if not zoo.requires_fh_in_fit(spec):
        ok1, _ = ctx.call("predict:exception:" + spec[0], f.predict, [2], None if Xf is None else Xf)
        ok2, c = ctx.call("predict:exception:" + spec[0], f.predict, fh, Xf)
        if ok1 and ok2:
            ctx.check("apply.interleaved", _eq(a, c, 1e-12), "interleave:%s:predict-after-other-predict-differs" % spec[0], "predict after an interleaved predict with another horizon differs")
    if not zoo.requires_fh_in_fit(spec) and Xf is None:
        # a sequence of different horizons (same first / last step and length, other steps in between): each forecast equals that of a
        # copy which has answered no other request
        try:
            state = pickle.dumps(f)
        except Exception:  # noqa
            state = None
        if state is not None:
            for qi, q in enumerate(([1, 2, 4], [1, 3, 4], [1, 2, 4], [2], [1, 2, 3, 4, 5], [1, 3, 4])):
                ok1, r_long = ctx.call("predict:exception:" + spec[0], f.predict, q)
                ok2, r_fresh = ctx.call("predict:exception:" + spec[0], pickle.loads(state).predict, q)
                if ok1 and ok2:
                    ctx.check("apply.interleaved", _eq(r_long, r_fresh, 1e-12), "interleave:%s:predict-depends-on-earlier-predict-calls" % spec[0],
                              "predict of a long-lived forecaster differs from that of a copy that has answered no other request", call=qi, horizon=q,
                              got=np.asarray(r_long).tolist(), expected=np.asarray(r_fresh).tolist())
    ok, f2 = ctx.call("pickle:exception:" + spec[0], lambda: pickle.loads(pickle.dumps(f)))
    if ok:
        ok, d = ctx.call("predict:exception:" + spec[0], f2.predict, fh, Xf)
        if ok:
            ctx.check("pickle", _eq(a, d, 1e-12), "pickle:%s:restored-copy-differs" % spec[0], "a pickled and restored forecaster gives another forecast")
    # equal parameters + equal data => equal results: a second fresh instance, and an instance that had another life before
    # (fitted on another series, with another horizon, predicted from) and is then fitted on the same data
    g = zoo.build(spec)
    ok, _ = ctx.call("fit:exception:" + spec[0], g.fit, y.copy(), None if X is None else X.copy(), fh)
    if ok:
        ok, e = ctx.call("predict:exception:" + spec[0], g.predict, fh, Xf)
        if ok:
            ctx.check("equal-params", _eq(a, e, 1e-12), "equal-params:%s:second-fresh-instance-differs" % spec[0], "two fresh forecasters with equal parameters fitted on equal data forecast differently")
    h = zoo.build(spec)
    reconf = None
    if spec[0] in ("ensemble", "stack", "online", "multiplex", "pipeline") and case["dseed"] % 2 == 0:
        # the used instance had OTHER parts in its earlier life (same class, same number of parts) and is then given this case's parameters
        alt = [spec[0], dict(spec[1])] + [list(x) if isinstance(x, list) else x for x in spec[2:]]
        simple = ["naive", {"strategy": "mean", "window_length": 2}]
        if spec[0] == "pipeline":
            alt[3] = simple
        else:
            alt[2] = [simple for _ in spec[2]]
        try:
            h = zoo.build(alt)
            reconf = zoo.build(spec).get_params(deep=False)
        except Exception:  # noqa
            h, reconf = zoo.build(spec), None
    m0 = zoo.min_length(spec) + int(rng.integers(4, 30))
    y0 = zoo.make_series(rng, m0, positive=True, off=int(rng.choice([3, 50])), index=case["idx"], kind="walk") * 1.7 + 5.0
    X0 = pd.DataFrame({"x": rng.normal(0, 1, m0)}, index=y0.index) if case["withX"] else None
    try:
        h.fit(y0, X0, fh=[1, 2])
        h.predict([1, 2], None if X0 is None else pd.DataFrame({"x": [0.0, 0.0]}, index=pd.RangeIndex(y0.index[-1] + 1, y0.index[-1] + 3)))
        used = True
    except Exception:  # noqa
        used = False
    if used and reconf is not None:
        h.set_params(**reconf)
        ctx.tag("used-instance:reconfigured-with-other-parts")
    if used:
        ok, a_again = ctx.call("predict:exception:" + spec[0], f.predict, fh, Xf)
        if ok:
            ctx.check("apply.interleaved", _eq(a, a_again, 1e-12), "isolation:%s:changed-by-fitting-another-instance" % spec[0],
                      "predict of a fitted forecaster changed after another instance with equal parameters was fitted on other data")
    if used:
        ok, _ = ctx.call("fit:exception:%s:refit-of-used-instance" % spec[0], h.fit, y.copy(), None if X is None else X.copy(), fh)
        if ok:
            ok, e = ctx.call("predict:exception:%s:refit-of-used-instance" % spec[0], h.predict, fh, Xf)
            if ok:
                ctx.check("equal-params", _eq(a, e, 1e-12), "equal-params:%s:refitted-used-instance-differs-from-fresh" % spec[0],
                          "a forecaster that was fitted on other data before, fitted again on the same data, forecasts differently from a fresh one",
                          fresh=np.asarray(a).tolist(), reused=np.asarray(e).tolist())
                ctx.check("equal-params", h.cutoff == f.cutoff, "equal-params:%s:refitted-used-instance-differs-from-fresh" % spec[0], "cutoff of the refitted instance differs", got=h.cutoff)
    ctx.tag("f:" + spec[0])
    ctx.event(kind="forecaster", spec=name)
    ctx.nontrivial = True


def _panel(case, ctx):
    name = case["est"]
    rng = np.random.default_rng([case["dseed"], 1214])
    multi = name in pzoo.NEEDS_MULTI
    nt = int(rng.integers(max(pzoo.MIN_LEN.get(name, 12), 12), 30))
    cells = "A" if case["container"] == "A" else "S"
    if name == "muse" and cells == "A":
        cells = "S"            # known finding of C16 (array cells); not this property's business
    pos = name == "row_log"
    cidx = ["default", "default", "one-based", "offset"][case["dseed"] % 4] if cells == "S" else "default"
    Xtr, ytr, Atr = pzoo.make_panel(rng, 10, 2 if multi else 1, nt, cells=cells, positive=pos, plateaus=name == "plateau", cell_index=cidx)
    Xte, _, Ate = pzoo.make_panel(rng, 6, 2 if multi else 1, nt, cells=cells, positive=pos, plateaus=name == "plateau", cell_index=cidx)
    if case["container"] == "np":
        Xtr, Xte = Atr, Ate
    sup = name in pzoo.CLASSIFIERS or name in pzoo.REGRESSORS or name in pzoo.SUPERVISED_T
    y = (ytr + rng.normal(0, 0.1, len(ytr))) if name in pzoo.REGRESSORS else np.array(["a", "b"])[ytr]
    est = pzoo.build(name, case["eseed"])
    tagname = "%s:%s" % (name, case["container"])
    variant = pzoo.random_variant(np.random.default_rng([case["dseed"], 7]), est) if case["dseed"] % 3 == 0 else None
    _orig_build = pzoo.build
    if variant:
        # every instance built for this case carries the same option value; options the estimator refuses for these data end the case
        vk = variant.split("=", 1)[0]
        vv = est.get_params(deep=False)[vk]
        try:
            probe = _orig_build(name, case["eseed"])
            probe.set_params(**{vk: vv})
            probe.fit(Xtr, y) if sup else probe.fit(Xtr)
            out_ = (probe.predict_proba if name in pzoo.CLASSIFIERS else (probe.predict if name in pzoo.REGRESSORS else probe.transform))(Xte)
            if name in pzoo.CLASSIFIERS:
                if not np.all(np.isfinite(np.asarray(out_, dtype=float))):
                    # e.g. a dictionary ensemble whose window range is empty for this series length: fitted without any member (outside the properties)
                    ctx.tag("option-variant-degenerate:%s:%s" % (name, vk))
                    return
                probe.predict(Xte)
        except Exception as e:  # noqa
            ctx.tag("option-variant-rejected:%s:%s:%s" % (name, vk, type(e).__name__))
            return
        ctx.tag("option-variant")

        def _build_variant(n_, seed_=0):
            e_ = _orig_build(n_, seed_)
            if n_ == name:
                e_.set_params(**{vk: vv})
            return e_
        pzoo.build = _build_variant
    try:
        return _panel_body(case, ctx, name, est, tagname, sup, Xtr, Xte, y, rng, multi, cells, pos)
    finally:
        pzoo.build = _orig_build


def _panel_body(case, ctx, name, est, tagname, sup, Xtr, Xte, y, rng, multi, cells, pos):
    ok, _ = _guarded(ctx, tagname, "fit.caller-data-unchanged", "purity:fit:%s:mutates-caller-data" % name, (lambda: est.fit(Xtr, y)) if sup else (lambda: est.fit(Xtr)), Xtr, y)
    if not ok:
        return
    methods = ["predict_proba", "predict"] if name in pzoo.CLASSIFIERS else (["predict"] if name in pzoo.REGRESSORS else ["transform"])
    first = {}
    for m in methods:
        ok, a = _guarded(ctx, tagname, "apply.caller-data-unchanged", "purity:%s:%s:mutates-caller-data" % (m, name), lambda: getattr(est, m)(Xte), Xte)
        if ok:
            first[m] = a
    for m in methods:
        if m in first:
            ok, b = ctx.call("%s:exception:%s" % (m, name), getattr(est, m), Xte)
            if ok:
                ctx.check("apply.repeatable" if len(methods) == 1 else "apply.interleaved", _eq(first[m], b, 1e-12), "repeat:%s:%s:later-call-differs" % (m, name),
                          "repeating %s (with other apply-type calls in between) returned another result" % m)
    # apply-type calls leave no trace: a long-lived estimator answers a sequence of different panels (reordered, sub-panels, one
    # instance) like copies restored from the state right after fit that see only that panel
    try:
        state = pickle.dumps(est)
    except Exception:  # noqa
        state = None
    if state is not None and first and not isinstance(Xte, np.ndarray):
        nte = len(Xte)
        seq = [Xte.iloc[::-1].reset_index(drop=True), Xte.iloc[:3].reset_index(drop=True), Xte.iloc[[nte - 1]].reset_index(drop=True), Xte.iloc[1:].reset_index(drop=True), Xte]
        for qi, q in enumerate(seq):
            for m in methods:
                if m not in first:
                    continue
                ok1, r_long = ctx.call("%s:exception:%s" % (m, name), getattr(est, m), q)
                ok2, r_fresh = ctx.call("%s:exception:%s" % (m, name), getattr(pickle.loads(state), m), q)
                if ok1 and ok2:
                    ctx.check("apply.interleaved", _eq(r_long, r_fresh, 1e-12), "interleave:%s:%s-depends-on-earlier-apply-calls" % (name, m),
                              "%s of a long-lived estimator differs from that of a copy that has seen no other apply-type call" % m, call=qi, instances=len(q))
    ok, est2 = ctx.call("pickle:exception:" + name, lambda: pickle.loads(pickle.dumps(est)))
    if ok:
        for m in methods:
            if m in first:
                ok, d = ctx.call("%s:exception:%s" % (m, name), getattr(est2, m), Xte)
                if ok:
                    ctx.check("pickle", _eq(first[m], d, 1e-12), "pickle:%s:restored-copy-differs" % name, "a pickled and restored estimator gives another result")
    # equal parameters + equal data => equal results: second fresh instance; instance with an earlier life on another panel
    def fit_apply(e, where):
        ok, _ = ctx.call("fit:exception:%s:%s" % (name, where), (lambda: e.fit(Xtr, y)) if sup else (lambda: e.fit(Xtr)))
        outs = {}
        if ok:
            for m in methods:
                ok, o = ctx.call("%s:exception:%s:%s" % (m, name, where), getattr(e, m), Xte)
                if ok:
                    outs[m] = o
        return outs
    if first:
        o2 = fit_apply(pzoo.build(name, case["eseed"]), "second-fresh-instance")
        for m in o2:
            if m in first:
                ctx.check("equal-params", _eq(first[m], o2[m], 1e-12), "equal-params:%s:second-fresh-instance-differs" % name,
                          "two fresh estimators with equal parameters (and random_state) fitted on equal data give different results", method=m)
        u = pzoo.build(name, case["eseed"])
        nt0 = int(rng.integers(max(pzoo.MIN_LEN.get(name, 12), 12) + 2, 40))
        X0, y0i, A0 = pzoo.make_panel(rng, 13, 2 if multi else 1, nt0, cells=cells, positive=pos, plateaus=name == "plateau", classes=3)
        y0 = (y0i + rng.normal(0, 0.1, len(y0i))) if name in pzoo.REGRESSORS else np.array(["b", "c", "a"])[y0i]
        try:
            u.fit(A0 if case["container"] == "np" else X0, y0) if sup else u.fit(A0 if case["container"] == "np" else X0)
            getattr(u, methods[0])(A0 if case["container"] == "np" else X0)
            used = True
        except Exception:  # noqa
            used = False
        if used:
            # instances are separate: what the first estimator returns is not changed by another instance fitted on another panel
            for m in methods:
                if m in first:
                    ok, again = ctx.call("%s:exception:%s" % (m, name), getattr(est, m), Xte)
                    if ok:
                        ctx.check("apply.interleaved", _eq(first[m], again, 1e-12), "isolation:%s:changed-by-fitting-another-instance" % name,
                                  "%s of a fitted estimator changed after another instance of the same class was fitted on another panel" % m)
        if used:
            o3 = fit_apply(u, "refit-of-used-instance")
            for m in o3:
                if m in first:
                    ctx.check("equal-params", _eq(first[m], o3[m], 1e-12), "equal-params:%s:refitted-used-instance-differs-from-fresh" % name,
                              "an estimator that was fitted on another panel before, fitted again on the same data, gives other results than a fresh one", method=m)
    ctx.tag("p:" + name)
    ctx.event(kind="panel", est=name, container=case["container"])
    ctx.nontrivial = bool(first)


# ---------------------------------------------------------------------------------
# schedule monitor
# ---------------------------------------------------------------------------------
class Delays:
    """wraps module-level task functions with seeded sleeps and records task start / completion order per run"""

    def __init__(self, targets, seed, every=1):
        self.targets, self.seed, self.every = targets, seed, every      # every: sleep on one call in `every` (task functions called thousands of times)
        self.orig = []
        self.lock = threading.Lock()
        self.done = []
        self.counter = 0

    def __enter__(self):
        for mod, attr in self.targets:
            o = getattr(mod, attr)
            self.orig.append((mod, attr, o))
            setattr(mod, attr, self._wrap(o, attr))
        return self

    def _wrap(self, fn, label):
        def w(*a, **k):
            with self.lock:
                i = self.counter
                self.counter += 1
            r = np.random.default_rng([self.seed, i])
            slow = self.every == 1 or int(r.integers(0, self.every)) == 0
            if slow:
                time.sleep(float(r.uniform(0, 0.004)))
            out = fn(*a, **k)
            if slow:
                time.sleep(float(r.uniform(0, 0.002)))
            with self.lock:
                self.done.append(i)
            return out
        w.__wrapped__ = fn
        return w

    def __exit__(self, *exc):
        for mod, attr, o in self.orig:
            setattr(mod, attr, o)


def _njobs(case, ctx):
    from joblib import parallel_backend
    name = case["est"]
    rng = np.random.default_rng([case["dseed"], 1215])
    import sktime.classification.interval_based._rise as RI
    import sktime.classification.interval_based._stsf as ST
    import sktime.classification.interval_based._tsf as C
    import sktime.regression.interval_based._tsf as R
    import sktime.series_as_features.base.estimators.interval_based._tsf as B
    orders = set()
    outs = {}
    if name in ("boss", "cboss", "iboss", "sfa", "ctsf", "ctsfreg", "param-extractor", "feature-union"):
        # small training sets on purpose: the BOSS ensembles keep / drop members on exact accuracy ties
        ntr = int(rng.integers(10, 31))
        nt = int(rng.integers(20, 33))
        Xtr, ytr, _ = pzoo.make_panel(rng, ntr, 1, nt, classes=case.get("classes", 2))
        Xte, _, _ = pzoo.make_panel(rng, 12, 1, nt, classes=case.get("classes", 2))
        if case.get("data") == "bundled" and name in ("boss", "cboss", "iboss", "sfa"):
            # a bundled problem (random sub-sample): real series produce the exact accuracy ties between word lengths that synthetic noise rarely does
            from sktime.datasets import load_italy_power_demand
            Xa, ya = load_italy_power_demand(return_X_y=True)
            pick = rng.permutation(len(Xa))
            Xtr, Xte = Xa.iloc[pick[:ntr]].reset_index(drop=True), Xa.iloc[pick[ntr:ntr + 25]].reset_index(drop=True)
            ytr = (np.asarray(ya)[pick[:ntr]] == np.asarray(ya)[0]).astype(int)
        yl = np.array(["a", "b", "c", "d"])[ytr]
        structure = {}
        import sktime.classification.dictionary_based._boss as BO
        import sktime.transformations.panel.dictionary_based._sfa as SF
        targets = [(BO.IndividualBOSS, "_train_predict"), (BO.IndividualBOSS, "_test_nn"), (SF.SFA, "_transform_case")]

        def mk(nj):
            if name in ("boss", "cboss", "iboss", "sfa"):
                e = pzoo.build(name, case["eseed"])
                e.set_params(n_jobs=nj if nj is not None else 1)
                return e, yl
            if name == "ctsf":
                from sktime.classification.compose import ComposableTimeSeriesForestClassifier
                return ComposableTimeSeriesForestClassifier(n_estimators=5, random_state=case["eseed"], n_jobs=nj), yl
            if name == "ctsfreg":
                from sktime.regression.compose import ComposableTimeSeriesForestRegressor
                return ComposableTimeSeriesForestRegressor(n_estimators=5, random_state=case["eseed"], n_jobs=nj), ytr + rng0.normal(0, 0.1, len(ytr))
            if name == "param-extractor":
                from sktime.forecasting.exp_smoothing import ExponentialSmoothing
                from sktime.transformations.panel.summarize import FittedParamExtractor
                return FittedParamExtractor(ExponentialSmoothing(), ["initial_level"], n_jobs=nj), None
            from sktime.series_as_features.compose import FeatureUnion
            from sktime.transformations.panel.dictionary_based import PAA
            from sktime.transformations.panel.summarize import DerivativeSlopeTransformer
            return FeatureUnion([("a", PAA(num_intervals=3)), ("b", DerivativeSlopeTransformer()), ("c", PAA(num_intervals=5))], n_jobs=nj), None
        every = 40
        if name == "param-extractor":
            # the row tasks fit a forecaster and read its fitted parameters: delays at exactly these two steps (between them a task that shared
            # anything with another row task would see that task's fit)
            from sktime.forecasting.exp_smoothing import ExponentialSmoothing as ES_
            targets, every = [(ES_, "fit"), (ES_, "get_fitted_params")], 1
        for nj in (None, 1, 2, 4):
            rng0 = np.random.default_rng([case["dseed"], 77])
            est, yy = mk(nj)
            with Delays(targets, case["delay_seed"] + (nj or 0), every=every) as d, parallel_backend("threading"):
                ok, _ = ctx.call("njobs:fit-exception:" + name, est.fit, Xtr, yy) if yy is not None else ctx.call("njobs:fit-exception:" + name, est.fit, Xtr)
                if not ok:
                    return
                fn = est.predict if name == "ctsfreg" else (est.predict_proba if hasattr(est, "predict_proba") else est.transform)
                ok, o = ctx.call("njobs:apply-exception:" + name, fn, Xte)
                if not ok:
                    return
            if name in ("boss", "cboss"):
                # the fitted ensemble itself: members (window, word length, normalisation, training accuracy) and their weights
                structure[nj] = [(int(c.window_size), int(c.word_length), bool(c.norm), round(float(getattr(c, "accuracy", 0.0)), 12)) for c in est.classifiers] + \
                    [round(float(w), 12) for w in getattr(est, "weights", [])]
            if name == "sfa":
                o = [[sorted((int(k), int(v)) for k, v in bag.items()) for bag in o[0]]] if not hasattr(o, "iloc") else pzoo.canon(o)
                outs[nj] = o
            else:
                c = pzoo.canon(o) if hasattr(o, "iloc") else None
                outs[nj] = np.asarray([np.concatenate([np.ravel(np.asarray(x, dtype=float)) for x in row]) for row in c], dtype=float) if c is not None and len(c) and isinstance(c[0], tuple) \
                    else np.asarray(o, dtype=float)
            orders.add(tuple(d.done))
        for nj, st in structure.items():
            ctx.check("n_jobs", st == structure[None], "n_jobs:%s:fitted-ensemble-depends-on-n_jobs" % name,
                      "equal estimators fitted on equal data keep different members for different n_jobs", n_jobs=nj, got=st[:6], expected=structure[None][:6])
    elif name in ("tsf", "tsfreg", "rise", "stsf"):
        Xtr, ytr, _ = pzoo.make_panel(rng, 14, 1, 26)
        Xte, _, _ = pzoo.make_panel(rng, 7, 1, 26)
        y = (ytr + rng.normal(0, 0.1, len(ytr))) if name == "tsfreg" else np.array(["a", "b"])[ytr]
        targets = [(B, "_fit_estimator"), (C, "_predict_proba"), (R, "_predict"), (RI, "_parallel_build_trees"), (RI, "_predict_proba_for_estimator"),
                   (ST.SupervisedTimeSeriesForest, "_fit_estimator"), (ST.SupervisedTimeSeriesForest, "_predict_proba_for_estimator")]
        for nj in (None, 1, 2, 4):
            est = pzoo.build(name, case["eseed"])
            est.set_params(n_jobs=nj if nj is not None else 1, n_estimators=6)
            with Delays(targets, case["delay_seed"] + (nj or 0)) as d, parallel_backend("threading"):
                ok, _ = ctx.call("njobs:fit-exception:" + name, est.fit, Xtr, y)
                if not ok:
                    return
                ok, o = ctx.call("njobs:apply-exception:" + name, est.predict if name == "tsfreg" else est.predict_proba, Xte)
                if not ok:
                    return
            outs[nj] = np.asarray(o, dtype=float)
            orders.add(tuple(d.done))
    else:
        from sktime.forecasting.naive import NaiveForecaster
        from sktime.forecasting.trend import PolynomialTrendForecaster
        import sktime.forecasting.naive as NV
        import sktime.forecasting.trend as TR
        y = zoo.make_series(rng, 40, positive=True)
        fh = [1, 2, 3]
        # delays inside the members' fit: task boundary of the ensemble's parallel member fitting
        targets = [(NV.NaiveForecaster, "fit"), (TR.PolynomialTrendForecaster, "fit")]
        for nj in (None, 1, 2, 4):
            if name == "ensemble-forecaster":
                from sktime.forecasting.compose import EnsembleForecaster
                est = EnsembleForecaster([("a", NaiveForecaster()), ("b", PolynomialTrendForecaster(degree=1)), ("c", NaiveForecaster(strategy="drift")),
                                          ("d", PolynomialTrendForecaster(degree=2))], n_jobs=nj, aggfunc="median")
            elif name == "stack-forecaster":
                from sklearn.linear_model import LinearRegression
                from sktime.forecasting.compose import StackingForecaster
                est = StackingForecaster([("a", NaiveForecaster()), ("b", PolynomialTrendForecaster(degree=1)), ("c", NaiveForecaster(strategy="drift"))],
                                         final_regressor=LinearRegression(), n_jobs=nj)
            elif name == "autoets":
                from sktime.forecasting.ets import AutoETS
                est = AutoETS(auto=True, sp=1, n_jobs=nj)
                targets = []
            elif name == "online-forecaster":
                from sktime.forecasting.online_learning import OnlineEnsembleForecaster
                est = OnlineEnsembleForecaster([("a", NaiveForecaster()), ("b", PolynomialTrendForecaster(degree=1)), ("c", NaiveForecaster(strategy="drift"))], n_jobs=nj)
            elif name == "multiplex-forecaster":
                from sktime.forecasting.compose import MultiplexForecaster
                est = MultiplexForecaster([("a", NaiveForecaster()), ("b", PolynomialTrendForecaster(degree=1))], selected_forecaster="b")
                if "n_jobs" in est.get_params():
                    est.set_params(n_jobs=nj)
            elif name == "rand":
                from sktime.forecasting.model_selection import ForecastingRandomizedSearchCV, SlidingWindowSplitter
                est = ForecastingRandomizedSearchCV(NaiveForecaster(), cv=SlidingWindowSplitter(fh=[1], window_length=12, step_length=6), n_iter=4, random_state=case["eseed"],
                                                    param_distributions={"strategy": ["last", "mean", "drift"], "window_length": [3, 5]}, n_jobs=nj)
            else:
                from sktime.forecasting.model_selection import ForecastingGridSearchCV, SlidingWindowSplitter
                est = ForecastingGridSearchCV(NaiveForecaster(), cv=SlidingWindowSplitter(fh=[1], window_length=12, step_length=6),
                                              param_grid={"strategy": ["last", "mean", "drift"], "window_length": [3, 5]}, n_jobs=nj)
            with Delays(targets, case["delay_seed"] + (nj or 0)) as d, parallel_backend("threading"):
                ok, _ = ctx.call("njobs:fit-exception:" + name, est.fit, y.copy(), fh=fh)
                if not ok:
                    return
                ok, o = ctx.call("njobs:apply-exception:" + name, est.predict, fh)
                if not ok:
                    return
            outs[nj] = np.asarray(o, dtype=float)
            orders.add(tuple(d.done))
    base = outs[None]
    for nj, o in outs.items():
        if isinstance(base, list):
            ctx.check("n_jobs", o == base, "n_jobs:%s:result-depends-on-n_jobs-or-schedule" % name,
                      "equal estimators fitted on equal data give different results for different n_jobs (under injected task delays)", n_jobs=nj)
            continue
        ctx.check("n_jobs", o.shape == base.shape and np.allclose(o, base, rtol=1e-12, atol=1e-12), "n_jobs:%s:result-depends-on-n_jobs-or-schedule" % name,
                  "equal estimators fitted on equal data give different results for different n_jobs (under injected task delays)", n_jobs=nj,
                  got=o.ravel()[:6].tolist(), expected=base.ravel()[:6].tolist())
    ctx.check("schedule.distinct-completion-orders", True, "")
    ctx.tag("completion-orders:%d" % len(orders))
    ctx.tag("nj:" + name)
    ctx.event(kind="njobs", est=name, distinct_completion_orders=len(orders), first_order=list(next(iter(orders)))[:12] if orders else None)
    ctx.nontrivial = True
