"""C11 - elementary forecasters compute the textbook forecast they document.

Reference implementations written from the docstrings: the season of a target time T+h is
(T+h) mod sp and the same-season members of a window are the window's time points t with
t = T+h (mod sp) - independent of how the code lays the window out."""
import math

import numpy as np
import pandas as pd

PID = "C11"
LEVEL = "exploration"
RULE = ("cases = naive (strategy, n, sp, window_length, index offset, NaN pattern, horizon set incl. gapped / beyond one season / "
        "in-sample), polynomial trend (n, degree, intercept, horizons in/out of sample), statsmodels adapters (option set, series, "
        "horizons); small scope enumerated exhaustively, rest seeded; non-trivial: naive with sp > 1 or window shorter than the "
        "series or NaNs, polynomial of degree >= 1, any adapter case; distinct = distinct case dict")
ANCHOR_FILES = ["sktime/forecasting/naive.py", "sktime/forecasting/trend.py", "sktime/forecasting/base/_sktime.py",
                "sktime/forecasting/base/adapters/_statsmodels.py", "sktime/forecasting/exp_smoothing.py",
                "sktime/forecasting/ets.py", "sktime/forecasting/theta.py"]
REQUIRED_REACH = ["naive.py:NaiveForecaster._predict_last_window", "naive.py:NaiveForecaster.fit",
                  "_sktime.py:_BaseWindowForecaster._predict_in_sample", "trend.py:PolynomialTrendForecaster._predict",
                  "_statsmodels.py:_StatsModelsAdapter._predict", "theta.py:ThetaForecaster._compute_drift"]
REQUIRED_MONITORS = ["naive.oos", "naive.insample", "poly", "statsmodels"]
NOT_COVERED = ["in-sample naive forecasts whose preceding window is truncated by the series start for seasonal/drift strategies "
               "(no documented definition)", "prediction intervals"]
ASSUMPTIONS = ["statsmodels itself is the reference for the adapters (fitted directly with the same options)"]
JOBS = {"quick": 4, "thorough": 16}


def cases(tier, seed):
    rng = np.random.default_rng([seed, 11])
    nmax, spmax = (24, 6) if tier == "quick" else (45, 8)
    i = 0
    for n in range(2, nmax + 1):
        for sp in range(1, spmax + 1):
            for strategy in ("last", "mean", "drift"):
                if strategy == "drift" and sp > 1:
                    continue
                if strategy == "last":
                    wls = [None]
                elif strategy == "mean":
                    wls = [None] + [w for w in range(max(sp, 1), min(n, 2 * sp + 3) + 1)]
                else:
                    wls = [None] + list(range(2, min(n, 9) + 1))
                for wl in wls:
                    i += 1
                    yield {"kind": "naive", "strategy": strategy, "n": n, "sp": sp, "wl": wl, "off": [0, 5, -17, 1000][i % 4],
                           "nan": "none", "H": 3 * sp + 1, "gapped": i % 3 == 0, "insample": i % 4 == 1,
                           "idx": "range" if i % 2 else "int", "dseed": int(rng.integers(0, 2 ** 31))}
    nn = 800 if tier == "quick" else 60000
    for _ in range(nn):
        n = int(rng.integers(3, 60))
        sp = int(rng.integers(1, 9))
        strategy = ["last", "mean", "drift"][int(rng.integers(0, 3))]
        if strategy == "drift":
            sp = 1
        wl = None if rng.random() < 0.3 or strategy == "last" else int(rng.integers(max(sp, 2), max(sp, 2) + 12))
        yield {"kind": "naive", "strategy": strategy, "n": n, "sp": sp, "wl": wl, "off": int(rng.integers(-50, 10 ** 6)),
               "nan": ["none", "some", "window_end", "all_window"][int(rng.integers(0, 4))], "H": int(rng.integers(1, 4 * sp + 3)),
               "gapped": bool(rng.random() < 0.5), "insample": bool(rng.random() < 0.3), "idx": "range" if rng.random() < 0.5 else "int",
               "dseed": int(rng.integers(0, 2 ** 31))}
    # polynomial trend
    for n in ([3, 5, 8, 13, 30] if tier == "quick" else [3, 4, 5, 8, 13, 21, 30, 60]):
        for degree in range(0, 5):
            for icpt in (True, False):
                if degree == 0 and not icpt:
                    continue
                if n <= degree:
                    continue
                for rep in range(2 if tier == "quick" else 20):
                    yield {"kind": "poly", "n": n, "degree": degree, "intercept": icpt, "off": int(rng.choice([0, 7, -30, 10 ** 5])),
                           "fhkind": ["oos", "ins", "both", "gapped"][int(rng.integers(0, 4))], "idx": "range" if rep % 2 else "int",
                           "dseed": int(rng.integers(0, 2 ** 31))}
    # statsmodels adapters
    es_opts = [
        {}, {"trend": "add"}, {"trend": "add", "damped_trend": True}, {"seasonal": "add", "sp": 4},
        {"trend": "add", "seasonal": "add", "sp": 4}, {"trend": "mul"}, {"seasonal": "mul", "sp": 3},
    ]
    ets_opts = [{}, {"trend": "add"}, {"error": "mul"}, {"seasonal": "add", "sp": 4}, {"trend": "add", "damped_trend": True}]
    theta_opts = [{"sp": 1}, {"sp": 4}, {"sp": 4, "deseasonalize": False}, {"sp": 3}]
    reps = 3 if tier == "quick" else 60
    for rep in range(reps):
        for o in es_opts:
            yield {"kind": "es", "opts": o, "n": int(rng.integers(16, 50)), "off": int(rng.choice([0, 11, 500])), "H": int(rng.integers(1, 9)),
                   "gapped": bool(rng.random() < 0.5), "idx": "range" if rep % 2 else "int", "dseed": int(rng.integers(0, 2 ** 31))}
        for o in ets_opts:
            yield {"kind": "ets", "opts": o, "n": int(rng.integers(16, 50)), "off": int(rng.choice([0, 11, 500])), "H": int(rng.integers(1, 9)),
                   "gapped": bool(rng.random() < 0.5), "idx": "range", "dseed": int(rng.integers(0, 2 ** 31))}
        for j, (ad, o) in enumerate(SM_OPTION_SETS):
            yield {"kind": "sm-options", "adapter": ad, "opts": o, "n": int(rng.integers(24, 50)), "off": int(rng.choice([0, 11])), "dseed": int(rng.integers(0, 2 ** 31))}
        for o in theta_opts:
            yield {"kind": "theta", "opts": o, "n": int(rng.integers(16, 50)), "off": int(rng.choice([0, 11, 500])), "H": int(rng.integers(1, 9)),
                   "gapped": bool(rng.random() < 0.5), "idx": "range" if rep % 2 else "int", "dseed": int(rng.integers(0, 2 ** 31))}


SM_OPTION_SETS = [
    # (adapter, constructor options incl. non-default initialisation / estimation settings)
    ("ets", {"auto": False, "initialization_method": "heuristic"}),
    ("ets", {"auto": False, "trend": "add", "initialization_method": "heuristic", "maxiter": 50}),
    ("ets", {"auto": True, "initialization_method": "heuristic"}),
    ("ets", {"auto": True, "sp": 4, "initialization_method": "heuristic", "maxiter": 60, "additive_only": True}),
    ("ets", {"auto": True, "information_criterion": "bic", "allow_multiplicative_trend": True, "restrict": False}),
    ("ets", {"auto": False, "error": "mul", "trend": "add", "damped_trend": True, "initialization_method": "known", "initial_level": 60.0, "initial_trend": 0.5}),
    ("ets", {"auto": True, "initialization_method": "known", "initial_level": 60.0, "initial_trend": 0.5, "missing": "drop"}),
    ("es", {"trend": "add", "initialization_method": "heuristic"}),
    ("es", {"trend": "add", "seasonal": "add", "sp": 4, "initialization_method": "legacy-heuristic"}),
    ("es", {"trend": "add", "damped_trend": True, "use_boxcox": True}),
    ("es", {"initialization_method": "known", "initial_level": 55.0}),
    ("es", {"trend": "mul", "initialization_method": "known", "initial_level": 55.0, "initial_trend": 1.01}),
]


def _index(n, off, kind):
    return pd.RangeIndex(off, off + n) if kind == "range" else pd.Index(np.arange(off, off + n))


def _close(a, b, rtol=1e-9, scale=1.0):
    a = np.asarray(a, dtype=float)
    b = np.asarray(b, dtype=float)
    if a.shape != b.shape:
        return False
    both_nan = np.isnan(a) & np.isnan(b)
    with np.errstate(invalid="ignore"):
        ok = np.abs(a - b) <= rtol * (np.abs(b) + scale)
    return bool(np.all(ok | both_nan))


def _nanmean(v):
    v = [x for x in v if not math.isnan(x)]
    return math.fsum(v) / len(v) if v else float("nan")


def _naive_ref(y, strategy, sp, wl, h):
    """forecast for step h >= 1 from the end of list y (positions 0..T)"""
    T = len(y) - 1
    if strategy == "last":
        w = 1 if sp == 1 else sp
        win = list(range(T - w + 1, T + 1))
        if all(math.isnan(y[t]) for t in win):
            return float("nan")
        t = max(t for t in win if (t - (T + h)) % sp == 0)
        return y[t]
    w = len(y) if wl is None else wl
    win = list(range(T - w + 1, T + 1))
    if all(math.isnan(y[t]) for t in win):
        return float("nan")
    if strategy == "mean":
        return _nanmean([y[t] for t in win if (t - (T + h)) % sp == 0])
    slope = (y[T] - y[win[0]]) / (w - 1)
    return y[T] + h * slope


def run_case(case, ctx):
    kind = case["kind"]
    if kind == "naive":
        return _run_naive(case, ctx)
    if kind == "poly":
        return _run_poly(case, ctx)
    if kind == "sm-options":
        return _run_sm_options(case, ctx)
    return _run_sm(case, ctx)


def _run_sm_options(case, ctx):
    """the wrapped statsmodels model is built and fitted with the adapter's options: hook on the model class the adapter module uses,
    every construction / fit call is recorded and compared with the constructor arguments of the forecaster"""
    import warnings
    import sktime.forecasting.ets as ETS
    import sktime.forecasting.exp_smoothing as ES
    mod, attr = (ETS, "_ETSModel") if case["adapter"] == "ets" else (ES, "_ExponentialSmoothing")
    Model = getattr(mod, attr)
    calls = []

    class Recording(Model):
        def __init__(self, *a, **k):
            calls.append(("init", dict(k)))
            super().__init__(*a, **k)

        def fit(self, *a, **k):
            calls.append(("fit", dict(k)))
            return super().fit(*a, **k)
    o = dict(case["opts"])
    y = _series(dict(case, opts=o, H=3, gapped=False, idx="range"))
    f = (ETS.AutoETS if case["adapter"] == "ets" else ES.ExponentialSmoothing)(**o)
    setattr(mod, attr, Recording)
    try:
        with warnings.catch_warnings():
            warnings.simplefilter("ignore")
            try:
                f.fit(y.copy())
            except Exception as e:  # noqa
                ctx.tag("sm-options:fit-raised:" + type(e).__name__)
    finally:
        setattr(mod, attr, Model)
    inits = [k for op, k in calls if op == "init"]
    fits = [k for op, k in calls if op == "fit"]
    if not ctx.check("statsmodels", len(inits) >= 1, "statsmodels:%s:wrapped-model-never-built" % case["adapter"], "the adapter did not build the wrapped model"):
        return
    P = f.get_params()
    rename = {"sp": "seasonal_periods"}
    searched = {"error", "trend", "damped_trend", "seasonal"} if P.get("auto") else set()
    model_opts = ["error", "trend", "damped_trend", "seasonal", "sp", "initialization_method", "initial_level", "initial_trend", "initial_seasonal", "bounds", "dates", "freq",
                  "missing", "use_boxcox"]
    fit_opts = ["start_params", "maxiter", "full_output", "disp", "callback", "return_params"]
    for k in inits:
        for name in model_opts:
            if name in P and name not in searched:
                kk = rename.get(name, name)
                ctx.check("statsmodels", kk in k and (k[kk] is P[name] or k[kk] == P[name]), "statsmodels:%s:option-not-passed-to-wrapped-model:%s" % (case["adapter"], name),
                          "the wrapped statsmodels model was not built with the forecaster's option", option=name, given=repr(P[name])[:40], passed=repr(k.get(kk, "<absent>"))[:40],
                          auto=bool(P.get("auto")))
    if case["adapter"] == "ets":
        for k in fits:
            for name in fit_opts:
                ctx.check("statsmodels", name in k and (k[name] is P[name] or k[name] == P[name]), "statsmodels:ets:fit-option-not-passed-to-wrapped-model:%s" % name,
                          "the wrapped statsmodels model was not fitted with the forecaster's estimation option", option=name, given=repr(P[name])[:40], passed=repr(k.get(name, "<absent>"))[:40])
    if P.get("auto"):
        # the search visits exactly the documented candidate set, every candidate once
        cands = [(k.get("error"), k.get("trend"), k.get("seasonal"), bool(k.get("damped_trend"))) for k in inits]
        exp = []
        for e in ("add", "mul"):
            for t in (("add", "mul", None) if P["allow_multiplicative_trend"] else ("add", None)):
                for sn in (("add", "mul", None) if (P["sp"] or 0) > 1 else (None,)):
                    for d in (True, False):
                        if t is None and d:
                            continue
                        if P["restrict"]:
                            if e == "add" and (t == "mul" or sn == "mul"):
                                continue
                            if e == "mul" and t == "mul" and sn == "add":
                                continue
                            if P["additive_only"] and "mul" in (e, t, sn):
                                continue
                        exp.append((e, t, sn, d))
        ctx.check("statsmodels", sorted(map(repr, cands)) == sorted(map(repr, exp)), "statsmodels:ets:auto-search-candidate-set", "the automatic search does not visit exactly the documented candidates",
                  visited=len(cands), expected=len(exp))
        chosen = getattr(f, "_fitted_forecaster", None)
        if chosen is not None and fits:
            ic = P["information_criterion"]
            ctx.tag("sm-options:auto")
    ctx.event(kind="sm-options", adapter=case["adapter"], opts={k: repr(v)[:20] for k, v in o.items()}, models_built=len(inits), fits=len(fits))
    ctx.tag("sm-options:" + case["adapter"])
    ctx.nontrivial = True


def _run_naive(case, ctx):
    from sktime.forecasting.naive import NaiveForecaster

    rng = np.random.default_rng([case["dseed"], 111])
    n, sp, wl, strategy = case["n"], case["sp"], case["wl"], case["strategy"]
    vals = np.round(rng.normal(50, 20, size=n), 3)
    w_eff = (1 if sp == 1 else sp) if strategy == "last" else (n if wl is None else wl)
    if case["nan"] == "some":
        vals[rng.random(n) < 0.25] = np.nan
    elif case["nan"] == "window_end" and n > 1:
        vals[-1] = np.nan
    elif case["nan"] == "all_window":
        vals[max(0, n - w_eff):] = np.nan
    if case["nan"] == "none" and case["dseed"] % 5 == 0:
        vals = np.round(vals).astype(np.int64)       # integer-typed series: means / drifts are still real-valued
        ctx.tag("integer-series")
    y = pd.Series(vals, index=_index(n, case["off"], case["idx"]))
    f = NaiveForecaster(strategy=strategy, sp=sp, window_length=wl)
    if case["dseed"] % 7 == 3:
        # a used forecaster: fitted under another configuration on other data, then reconfigured - the definition applies to the current settings only
        other = {"last": "mean", "mean": "drift", "drift": "last"}[strategy]
        f = NaiveForecaster(strategy=other, sp=1 if sp > 1 else 2, window_length=5 if other != "last" else None)
        try:
            f.fit(pd.Series(np.linspace(3.0, 11.0, 12), index=pd.RangeIndex(40, 52)))
            f.predict([1, 2])
            ctx.tag("naive:used-then-reconfigured")
        except Exception:  # noqa
            ctx.tag("naive:earlier-life-refused")
        f.set_params(strategy=strategy, sp=sp, window_length=wl)
    valid = w_eff <= n and not (strategy == "drift" and wl == 1)
    try:
        f.fit(y)
    except ValueError as e:
        ctx.check("naive.fit", not valid, "naive:valid-config-rejected", "valid configuration rejected: %s" % e, case=case)
        return
    if not valid:
        ctx.check("naive.fit", False, "naive:window-larger-than-series-accepted", "window does not fit but fit succeeded", case=case)
        return
    H = case["H"]
    steps = list(range(1, H + 1))
    if case["gapped"] and H > 2:
        steps = [s for s in steps if s % 2 == 1 or s == H]
    yl = [float(v) for v in vals]
    drift_nan = strategy == "drift" and (math.isnan(yl[-1]) or math.isnan(yl[n - w_eff])) and not all(math.isnan(v) for v in yl[n - w_eff:])
    try:
        pred = f.predict(_fharg(case, case["off"] + n - 1, steps))
    except ValueError as e:
        ctx.check("naive.oos", drift_nan, "naive:predict-raised", "predict raised on a valid case: %s" % e, case=case)
        return
    T_label = case["off"] + n - 1
    ref = [_naive_ref(yl, strategy, sp, wl, h) for h in steps]
    ctx.check("naive.oos", list(pred.index) == [T_label + h for h in steps], "naive:forecast-index", "forecast index is not cutoff + fh",
              got=list(pred.index), steps=steps)
    if not drift_nan:
        key = "naive:%s%s:differs-from-textbook" % (strategy, ":seasonal" if sp > 1 else "")
        if strategy == "mean" and sp > 1 and w_eff % sp != 0:
            key = "naive:mean:seasonal:window-not-multiple-of-sp"
        ctx.check("naive.oos", _close(pred.values, ref, 1e-9, 1e-9), key, "naive forecast differs from its documented definition",
                  strategy=strategy, sp=sp, window_length=wl, n=n, steps=steps, got=pred.values.tolist(), expected=ref,
                  tail=yl[-min(n, 2 * max(sp, 3)):])
    ctx.event(strategy=strategy, sp=sp, wl=wl, n=n, steps=steps[:8], got=pred.values.tolist()[:8], expected=ref[:8])
    # the same observations on a monthly period index, the (possibly gapped) horizon given as the absolute periods: same values, labelled by
    # the requested periods.  (Period arithmetic runs through the compatibility layer here: failures to run are recorded, not judged.)
    if case["dseed"] % 9 == 4 and case["nan"] == "none" and not drift_nan:
        try:
            from sktime.forecasting.base import ForecastingHorizon
            pidx = pd.period_range("2001-01", periods=n, freq="M")
            fp = NaiveForecaster(strategy=strategy, sp=sp, window_length=wl).fit(pd.Series(np.asarray(vals, dtype=float), index=pidx))
            want_idx = pd.PeriodIndex([pidx[-1] + int(s_) for s_ in steps], freq="M")
            pp = fp.predict(ForecastingHorizon(want_idx, is_relative=False))
            ran = True
        except Exception as e:  # noqa
            ran = False
            ctx.tag("period-index-twin-not-runnable:" + type(e).__name__)
        if ran:
            ctx.check("naive.oos", list(pp.index) == list(want_idx) and _close(pp.values, pred.values, 1e-9, 1e-9), "naive:period-index:absolute-horizon-differs-from-integer-index",
                      "the same observations on a period index, asked for the same (gapped) time points as absolute periods, give other values / labels", steps=steps[:6],
                      got=np.asarray(pp.values, dtype=float).tolist()[:6], expected=pred.values.tolist()[:6])
            ctx.tag("period-index-twin")
    # in-sample: one-step forecasts from the preceding cutoff (where the full window exists)
    if case["insample"] and case["nan"] == "none":
        rel = [-(n - 1 - p) for p in range(n)]
        ok, ins = ctx.call("naive:in-sample-exception", f.predict, rel)
        if ok:
            ctx.check("naive.insample", list(ins.index) == list(y.index), "naive:in-sample-index", "in-sample forecast index wrong",
                      got=list(ins.index)[:10])
            for p in range(n):
                prev = yl[:p]
                full = len(prev) >= w_eff
                if p == 0:
                    exp = float("nan")
                elif strategy == "last" and sp == 1:
                    exp = prev[-1]
                elif strategy == "mean" and sp == 1:
                    exp = _nanmean(prev[-w_eff:])
                elif full:
                    exp = _naive_ref(prev, strategy, sp, (None if False else (w_eff if strategy != "last" else None)), 1)
                else:
                    ctx.ambiguous += 1
                    continue
                ctx.check("naive.insample", _close([ins.values[p]], [exp], 1e-9, 1e-9), "naive:in-sample:%s:differs" % strategy,
                          "in-sample forecast differs from the one-step forecast from the preceding cutoff", position=p,
                          got=float(ins.values[p]), expected=exp, strategy=strategy, sp=sp, window=w_eff)
    # in-sample requests leave the forecaster where it was: a horizon mixing in-sample and out-of-sample steps, and the out-of-sample forecast
    # asked again afterwards, give the values computed above
    if case["nan"] == "none" and n >= 4 and not drift_nan:
        mixed = [-1, 0] + steps[:3]
        ok, pm = ctx.call("naive:mixed-horizon-exception", f.predict, mixed)
        if ok:
            ctx.check("naive.oos", list(pm.index) == [T_label + h for h in mixed], "naive:mixed-horizon:forecast-index", "forecast index of a mixed in-sample / out-of-sample horizon is not cutoff + fh",
                      got=list(pm.index), steps=mixed)
            ctx.check("naive.oos", _close(pm.values[2:], ref[:len(mixed) - 2], 1e-9, 1e-9), "naive:mixed-horizon:out-of-sample-part-differs",
                      "the out-of-sample part of a mixed horizon differs from the out-of-sample forecast", got=pm.values.tolist(), expected=ref[:3])
        ok, pa = ctx.call("naive:predict-exception", f.predict, steps)
        if ok:
            ctx.check("naive.oos", list(pa.index) == list(pred.index) and _close(pa.values, pred.values, 1e-12, 1e-12) and int(f.cutoff) == T_label,
                      "naive:forecast-changes-after-an-in-sample-request", "the out-of-sample forecast (or the cutoff) is different after in-sample forecasts were requested",
                      cutoff=f.cutoff, expected_cutoff=T_label, got=pa.values.tolist()[:4], expected=pred.values.tolist()[:4])
    # the same numbers with the other meaning: after a horizon of relative steps S the absolute time points S (and the other way round)
    # are a different request and are answered as such
    if case["nan"] == "none" and not drift_nan:
        from sktime.forecasting.base import ForecastingHorizon
        first_abs = bool((case["dseed"] // 3) % 2)
        nums = [T_label + s_ for s_ in steps] if first_abs else list(steps)
        steps2 = list(nums) if first_abs else [v - T_label for v in nums]
        if min(steps2) >= 1 and max(steps2) <= 5000 and steps2 != list(steps):
            arg2 = list(nums) if first_abs else ForecastingHorizon(list(nums), is_relative=False)
            ok, _ = ctx.call("naive:predict-exception", f.predict, _fharg(case, T_label, steps))
            ok2, p2 = ctx.call("naive:predict-exception", f.predict, arg2) if ok else (False, None)
            if ok2:
                ref2 = [_naive_ref(yl, strategy, sp, wl, h) for h in steps2]
                good = list(p2.index) == [T_label + h for h in steps2] and (_close(p2.values, ref2, 1e-9, 1e-9) or (strategy == "mean" and sp > 1 and w_eff % sp != 0))
                ctx.check("naive.oos", good, "naive:same-numbers-other-meaning:answered-as-the-previous-horizon",
                          "a horizon with the same numbers but the other meaning (relative steps / absolute time points) than the previous request was not answered as asked",
                          previous="absolute" if first_abs else "relative", numbers=nums[:5], got_index=list(p2.index)[:5], expected_index=[T_label + h for h in steps2][:5],
                          got=p2.values.tolist()[:5], expected=ref2[:5])
                ctx.tag("naive:same-numbers-other-meaning")
    # the same definition after an update: the window is the last window of everything observed, whatever update_params is
    then = (case["dseed"] // 2) % 3
    if then and case["nan"] == "none":
        k = 1 + (case["dseed"] // 6) % (2 * sp + 2)
        new = np.round(rng.normal(50, 20, size=k), 3)
        ynew = pd.Series(new, index=_index(n + k, case["off"], case["idx"])[n:])
        # one absolute horizon OBJECT kept by the caller across the update: time points that are ahead of both cutoffs
        from sktime.forecasting.base import ForecastingHorizon
        Hobj = ForecastingHorizon([T_label + k + s_ for s_ in steps], is_relative=False) if not drift_nan else None
        if Hobj is not None:
            ok, pb = ctx.call("naive:predict-exception", f.predict, Hobj)
            if ok:
                refb = [_naive_ref(yl, strategy, sp, wl, k + h) for h in steps]
                ctx.check("naive.oos", list(pb.index) == [T_label + k + h for h in steps] and (_close(pb.values, refb, 1e-9, 1e-9) or (strategy == "mean" and sp > 1 and w_eff % sp != 0)),
                          "naive:kept-absolute-horizon:before-update", "forecast for absolute time points differs from the textbook value", got=pb.values.tolist()[:4], expected=refb[:4])
        ok, _ = ctx.call("naive:update-exception", f.update, ynew, update_params=(then == 2))
        if ok and Hobj is not None:
            ok2, pa2 = ctx.call("naive:predict-after-update-exception", f.predict, Hobj)
            if ok2:
                yl2_ = yl + [float(v) for v in new]
                wl2_ = n if (wl is None and then == 1 and strategy != "last") else wl
                refa = [_naive_ref(yl2_, strategy, sp, wl2_, h) for h in steps]
                ctx.check("naive.oos", list(pa2.index) == [T_label + k + h for h in steps] and (_close(pa2.values, refa, 1e-9, 1e-9) or (strategy == "mean" and sp > 1 and w_eff % sp != 0)),
                          "naive:kept-absolute-horizon:after-update:answered-for-the-earlier-cutoff", "the same absolute horizon object asked again after the cutoff moved is not "
                          "answered for the new cutoff", new_points=k, got=pa2.values.tolist()[:4], expected=refa[:4])
                ctx.tag("naive:kept-absolute-horizon-object")
        if ok:
            ok, pred2 = ctx.call("naive:predict-after-update-exception", f.predict, steps)
            if ok:
                yl2 = yl + [float(v) for v in new]
                # window_length=None is resolved at fit ("the whole training series"): without refitting that length is a fitted
                # parameter and stays; with refitting it becomes the length of everything observed
                wl2 = n if (wl is None and then == 1 and strategy != "last") else wl
                ref2 = [_naive_ref(yl2, strategy, sp, wl2, h) for h in steps]
                ctx.check("naive.oos", list(pred2.index) == [T_label + k + h for h in steps], "naive:forecast-index-after-update", "forecast index is not the new cutoff + fh",
                          got=list(pred2.index)[:6])
                ctx.check("naive.oos", _close(pred2.values, ref2, 1e-9, 1e-9), "naive:%s%s:after-update:differs-from-textbook" % (strategy, ":seasonal" if sp > 1 else ""),
                          "naive forecast after update differs from its documented definition on all observations", strategy=strategy, sp=sp, window_length=wl, n=n, new_points=k,
                          update_params=(then == 2), steps=steps, got=pred2.values.tolist(), expected=ref2)
                ctx.tag("naive:then-update")
    if sp > 1 or w_eff < n or case["nan"] != "none":
        ctx.nontrivial = True


def _run_poly(case, ctx):
    from sktime.forecasting.base import ForecastingHorizon
    from sktime.forecasting.trend import PolynomialTrendForecaster

    rng = np.random.default_rng([case["dseed"], 112])
    n, d, icpt, off = case["n"], case["degree"], case["intercept"], case["off"]
    x = np.arange(n, dtype=float)
    coef = rng.normal(0, 1, size=d + 1) / np.array([max(1.0, n ** k) for k in range(d + 1)]) * 10
    vals = sum(c * x ** k for k, c in enumerate(coef)) + rng.normal(0, 0.5, size=n)
    if case["dseed"] % 5 == 0:
        vals = np.round(vals * 10)
        y = pd.Series(vals.astype(np.int64), index=_index(n, off, case["idx"]))
        ctx.tag("integer-series")
    else:
        y = pd.Series(vals, index=_index(n, off, case["idx"]))
    fk = case["fhkind"]
    rel = {"oos": [1, 2, 3, 7], "ins": [-(n - 1), -1, 0] if n > 2 else [0], "both": [-2, 0, 1, 4], "gapped": [2, 5, 11]}[fk]
    rel = sorted(set(r for r in rel if r > -n))
    f = PolynomialTrendForecaster(degree=d, with_intercept=icpt)
    if case["dseed"] % 7 == 3:
        # a used forecaster: fitted with another degree / intercept setting on other data, then reconfigured
        f = PolynomialTrendForecaster(degree=d + 1, with_intercept=not icpt)
        try:
            f.fit(pd.Series(np.linspace(3.0, 11.0, 12) ** 2, index=pd.RangeIndex(40, 52)))
            f.predict([1, 2])
            ctx.tag("poly:used-then-reconfigured")
        except Exception:  # noqa
            ctx.tag("poly:earlier-life-refused")
        f.set_params(degree=d, with_intercept=icpt)
    ok, _ = ctx.call("poly:fit-exception", f.fit, y)
    if not ok:
        return
    use_abs = case["dseed"] % 2 == 0
    fh = ForecastingHorizon([off + n - 1 + r for r in rel], is_relative=False) if use_abs else rel
    ok, pred = ctx.call("poly:predict-exception", f.predict, fh)
    if not ok:
        return
    powers = list(range(0 if icpt else 1, d + 1))
    A = np.column_stack([x ** k for k in powers])
    beta, *_ = np.linalg.lstsq(A, vals, rcond=None)
    xp = np.array([n - 1 + r for r in rel], dtype=float)
    ref = np.column_stack([xp ** k for k in powers]) @ beta
    scale = float(np.max(np.abs(vals))) + 1.0
    ctx.check("poly", list(pred.index) == [off + n - 1 + r for r in rel], "poly:forecast-index", "forecast index wrong", got=list(pred.index))
    ctx.check("poly", _close(pred.values, ref, 1e-6, scale), "poly:differs-from-least-squares",
              "polynomial trend forecast differs from the least-squares polynomial", degree=d, intercept=icpt, n=n, rel=rel,
              got=pred.values.tolist(), expected=ref.tolist())
    ctx.event(kind="poly", degree=d, intercept=icpt, n=n, rel=rel, got=pred.values.tolist()[:4], expected=ref.tolist()[:4])
    # the same definition after the cutoff has moved: new observations without refitting keep the polynomial of the last fit, evaluated
    # at the requested time points counted from the new cutoff; with refitting it is the least-squares polynomial of all observations
    then = (case["dseed"] // 2) % 3
    if then:
        k = 1 + (case["dseed"] // 6) % 5
        x2 = np.arange(n + k, dtype=float)
        new = sum(c * x2[n:] ** kk for kk, c in enumerate(coef)) + rng.normal(0, 0.5, size=k)
        ynew = pd.Series(new, index=_index(n + k, off, case["idx"])[n:])
        ok, _ = ctx.call("poly:update-exception", f.update, ynew, update_params=(then == 2))
        if ok:
            n2 = n + k
            rel2 = [r for r in rel if r > -n2]
            fh2 = ForecastingHorizon([off + n2 - 1 + r for r in rel2], is_relative=False) if use_abs else rel2
            ok, pred2 = ctx.call("poly:predict-after-update-exception", f.predict, fh2)
            if ok:
                if then == 2:
                    allv = np.concatenate([vals, new])
                    beta2, *_ = np.linalg.lstsq(np.column_stack([x2 ** kk for kk in powers]), allv, rcond=None)
                else:
                    beta2 = beta
                xp2 = np.array([n2 - 1 + r for r in rel2], dtype=float)
                ref2 = np.column_stack([xp2 ** kk for kk in powers]) @ beta2
                ctx.check("poly", list(pred2.index) == [off + n2 - 1 + r for r in rel2], "poly:forecast-index-after-update", "forecast index wrong after update", got=list(pred2.index))
                ctx.check("poly", _close(pred2.values, ref2, 1e-6, scale + float(np.max(np.abs(ref2)))), "poly:after-update:differs-from-least-squares-polynomial-at-requested-times",
                          "after update(update_params=%s) the forecast is not the %s polynomial evaluated at the requested time points" % (then == 2, "refitted" if then == 2 else "last fitted"),
                          degree=d, n=n, new_points=k, rel=rel2, got=pred2.values.tolist(), expected=ref2.tolist())
                ctx.tag("poly:then-update-%s" % ("refit" if then == 2 else "norefit"))
    if d >= 1:
        ctx.nontrivial = True


def _series(case):
    rng = np.random.default_rng([case["dseed"], 113])
    n = case["n"]
    t = np.arange(n)
    sp = case["opts"].get("sp", 4) or 4
    vals = 50 + 0.8 * t + 6 * np.sin(2 * np.pi * t / max(sp, 2)) + rng.normal(0, 1.5, size=n)
    return pd.Series(vals, index=_index(n, case["off"], case["idx"]))


def _fharg(case, cutoff_label, steps):
    """the same horizon as relative steps or as absolute time points (half of the cases each)"""
    from sktime.forecasting.base import ForecastingHorizon
    if (case["dseed"] // 3) % 2:
        return ForecastingHorizon([cutoff_label + s for s in steps], is_relative=False)
    return steps


def _used(ctx, case, fresh, f):
    """every seventh case: the forecaster has had an earlier life under other options on other data and is then given the options of the case"""
    if case["dseed"] % 7 != 3:
        return fresh
    try:
        t = np.arange(30)
        f.fit(pd.Series(20.0 + 0.3 * t + 2.0 * np.sin(2 * np.pi * t / 3), index=pd.RangeIndex(5, 35)))
        f.predict([1, 2])
        f.set_params(**fresh.get_params(deep=False))
        ctx.tag("statsmodels:used-then-reconfigured")
        return f
    except Exception as e:  # noqa
        ctx.tag("statsmodels:earlier-life-refused:" + type(e).__name__)
        return fresh


def _run_sm(case, ctx):
    import warnings

    kind, o = case["kind"], dict(case["opts"])
    y = _series(case)
    n, off = case["n"], case["off"]
    steps = list(range(1, case["H"] + 1))
    if case["gapped"] and len(steps) > 2:
        steps = [s for s in steps if s % 2 == 1]
    yr = pd.Series(y.values.copy(), index=pd.RangeIndex(off, off + n))
    harg = _fharg(case, off + n - 1, steps)
    ctx.tag("horizon:%s" % ("absolute" if not isinstance(harg, list) else "relative"))
    with warnings.catch_warnings():
        warnings.simplefilter("ignore")
        if kind == "es":
            from sktime.forecasting.exp_smoothing import ExponentialSmoothing
            from statsmodels.tsa.holtwinters import ExponentialSmoothing as SM
            f = _used(ctx, case, ExponentialSmoothing(**o), ExponentialSmoothing(trend="add", seasonal="add", sp=3))
            ok, _ = ctx.call("statsmodels:fit-exception:es", f.fit, y.copy())
            if not ok:
                return
            ok, pred = ctx.call("statsmodels:predict-exception:es", f.predict, harg)
            if not ok:
                return
            m = SM(yr, trend=o.get("trend"), damped_trend=o.get("damped_trend", False), seasonal=o.get("seasonal"),
                   seasonal_periods=o.get("sp"), initialization_method="estimated").fit()
            ref = np.asarray(m.forecast(max(steps)))[[s - 1 for s in steps]]
        elif kind == "ets":
            from sktime.forecasting.ets import AutoETS
            from statsmodels.tsa.exponential_smoothing.ets import ETSModel
            f = _used(ctx, case, AutoETS(auto=False, **o), AutoETS(auto=False, trend="add", seasonal="add", sp=3))
            ok, _ = ctx.call("statsmodels:fit-exception:ets", f.fit, y.copy())
            if not ok:
                return
            ok, pred = ctx.call("statsmodels:predict-exception:ets", f.predict, harg)
            if not ok:
                return
            m = ETSModel(yr, error=o.get("error", "add"), trend=o.get("trend"), damped_trend=o.get("damped_trend", False),
                         seasonal=o.get("seasonal"), seasonal_periods=o.get("sp", 1)).fit(maxiter=1000, disp=False)
            ref = np.asarray(m.forecast(max(steps)))[[s - 1 for s in steps]]
        else:
            from sktime.forecasting.theta import ThetaForecaster
            from statsmodels.tsa.holtwinters import ExponentialSmoothing as SM
            from statsmodels.tsa.seasonal import seasonal_decompose
            f = _used(ctx, case, ThetaForecaster(**o), ThetaForecaster(sp=3, deseasonalize=True))
            ok, _ = ctx.call("statsmodels:fit-exception:theta", f.fit, y.copy())
            if not ok:
                return
            ok, pred = ctx.call("statsmodels:predict-exception:theta", f.predict, harg)
            if not ok:
                return
            sp = o.get("sp", 1)
            des = o.get("deseasonalize", True)
            v = yr.values.astype(float)
            if des and sp > 1:
                seas = seasonal_decompose(v, model="multiplicative", period=sp, filt=None, two_sided=True, extrapolate_trend=0).seasonal[:sp]
                v = v / np.array([seas[t % sp] for t in range(n)])
            m = SM(pd.Series(v, index=yr.index), initialization_method="estimated").fit()
            alpha = m.params["smoothing_level"]
            b = np.polyfit(np.arange(n, dtype=float), v, 1)[0]
            h = np.array(steps, dtype=float)
            ses = np.asarray(m.forecast(max(steps)))[[s - 1 for s in steps]]
            drift = 0.5 * b * (h if np.isclose(alpha, 0.0) else (h + (1 - (1 - alpha) ** n) / alpha))
            ref = ses + drift
            if des and sp > 1:
                ref = ref * np.array([seas[(n - 1 + s) % sp] for s in steps])
    scale = float(np.max(np.abs(y.values)))
    ctx.check("statsmodels", list(pred.index) == [off + n - 1 + s for s in steps], "statsmodels:%s:forecast-index" % kind,
              "forecast index wrong", got=list(pred.index), steps=steps)
    ctx.check("statsmodels", _close(pred.values, ref, 1e-6, scale * 1e-3), "statsmodels:%s:differs-from-wrapped-model" % kind,
              "adapter forecast differs from the wrapped statsmodels model fitted with the same options", opts=o, steps=steps,
              got=np.asarray(pred.values).tolist(), expected=np.asarray(ref).tolist())
    ctx.event(kind=kind, opts=o, steps=steps, got=np.asarray(pred.values).tolist()[:4], expected=np.asarray(ref).tolist()[:4])
    ctx.nontrivial = True
    # the requested time points after the cutoff has moved: new observations without refitting keep the fitted model, whose forecasts are then
    # asked for the time points counted from the NEW cutoff (k steps further along the fitted model's own forecast path)
    then = (case["dseed"] // 2) % 3
    if then == 2:
        # one absolute horizon OBJECT kept by the caller while the cutoff moves: asked again after the update it is answered like a newly made
        # horizon with the same time points (whatever the forecaster's formula - this only compares two ways of asking the same thing)
        from sktime.forecasting.base import ForecastingHorizon
        k = 1 + (case["dseed"] // 6) % 5
        pts = [off + n + k - 1 + s_ for s_ in steps]
        Hobj = ForecastingHorizon(list(pts), is_relative=False)
        rng2 = np.random.default_rng([case["dseed"], 115])
        ynew = pd.Series(y.values[-1] + rng2.normal(0, 1.0, size=k), index=_index(n + k, off, case["idx"])[n:])
        with warnings.catch_warnings():
            warnings.simplefilter("ignore")
            ok, _ = ctx.call("statsmodels:predict-exception:" + kind, f.predict, Hobj)
            ok = ok and ctx.call("statsmodels:update-exception:" + kind, f.update, ynew, update_params=False)[0]
            if ok:
                ok1, p_kept = ctx.call("statsmodels:predict-after-update-exception:" + kind, f.predict, Hobj)
                ok2, p_new = ctx.call("statsmodels:predict-after-update-exception:" + kind, f.predict, ForecastingHorizon(list(pts), is_relative=False))
                if ok1 and ok2:
                    ctx.check("statsmodels", list(p_kept.index) == pts and _close(p_kept.values, p_new.values, 1e-9, scale * 1e-6), "statsmodels:%s:kept-horizon-object-answered-for-the-earlier-cutoff" % kind,
                              "an absolute horizon object used before an update gives another forecast after it than a newly made horizon with the same time points",
                              new_points=k, got=np.asarray(p_kept.values).tolist()[:4], expected=np.asarray(p_new.values).tolist()[:4])
                    ctx.tag("statsmodels:kept-absolute-horizon-object")
    if kind in ("es", "ets") and then == 1:
        k = 1 + (case["dseed"] // 6) % 5
        rng = np.random.default_rng([case["dseed"], 114])
        ynew = pd.Series(y.values[-1] + rng.normal(0, 1.0, size=k), index=_index(n + k, off, case["idx"])[n:])
        with warnings.catch_warnings():
            warnings.simplefilter("ignore")
            ok, _ = ctx.call("statsmodels:update-exception:" + kind, f.update, ynew, update_params=False)
            ok, pred2 = ctx.call("statsmodels:predict-after-update-exception:" + kind, f.predict, _fharg(case, off + n + k - 1, steps)) if ok else (False, None)
            if ok:
                ref2 = np.asarray(m.forecast(k + max(steps)))[[k + s_ - 1 for s_ in steps]]
                ctx.check("statsmodels", list(pred2.index) == [off + n + k - 1 + s_ for s_ in steps], "statsmodels:%s:forecast-index-after-update" % kind,
                          "forecast index is not the new cutoff + fh", got=list(pred2.index), steps=steps, new_points=k)
                ctx.check("statsmodels", _close(pred2.values, ref2, 1e-6, scale * 1e-3), "statsmodels:%s:after-parameter-keeping-update:differs-from-wrapped-model" % kind,
                          "after update(update_params=False) the forecast is not the fitted model's forecast for the requested time points", opts=o, steps=steps, new_points=k,
                          got=np.asarray(pred2.values).tolist(), expected=ref2.tolist())
                ctx.tag("statsmodels:then-update")
