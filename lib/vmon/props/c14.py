"""C14 - closed-form transformers compute exactly the function they document.

One reference per transformer in plain loops (fractions for PAA); unique-id panels
(v = 1e6 (i+1) + 1e3 (j+1) + t) make row / column / time misplacement explicit."""
from fractions import Fraction

import numpy as np
import pandas as pd

PID = "C14"
LEVEL = "exploration"
RULE = ("cases = (transformer, panel shape: instances x columns x lengths (equal or unequal), cell type, parameters: pad length / fill value, "
        "truncation bounds, target length, number of intervals, window length, interval set, wrapped transformer, imputation method and NaN "
        "pattern, value kind); PAA enumerated over an (n, k) grid; non-trivial: >= 2 instances and the parameter does not divide / equal the "
        "series length trivially; distinct = distinct case dict")
ANCHOR_FILES = ["sktime/transformations/panel/*.py", "sktime/transformations/panel/dictionary_based/_paa.py",
                "sktime/transformations/panel/summarize/_extract.py", "sktime/transformations/series/*.py", "sktime/utils/slope_and_trend.py"]
REQUIRED_REACH = ["padder.py:PaddingTransformer._create_pad", "truncation.py:TruncationTransformer.transform", "interpolate.py:TSInterpolator._resize_cell",
                  "reduce.py:Tabularizer.transform", "compose.py:ColumnConcatenator.transform", "_paa.py:PAA._perform_paa_along_dim",
                  "segment.py:IntervalSegmenter.transform", "segment.py:SlidingWindowSegmenter.transform",
                  "_extract.py:RandomIntervalFeatureExtractor.transform", "compose.py:SeriesToSeriesRowTransformer.transform",
                  "compose.py:SeriesToPrimitivesRowTransformer.transform", "impute.py:Imputer.transform", "cos.py:CosineTransformer.transform",
                  "acf.py:AutoCorrelationTransformer.transform", "adapt.py:TabularToSeriesAdaptor.transform", "summarize.py:MeanTransformer.transform",
                  "slope_and_trend.py:_slope"]
REQUIRED_MONITORS = ["padder", "truncation", "interpolate", "tabularizer", "concatenator", "paa", "interval-segmenter", "sliding-window",
                     "interval-features", "row-transformers", "imputer", "series-closed-form", "rows"]
NOT_COVERED = ["integer IntervalSegmenter: whether interval end points are inclusive is undocumented - only count, order, contiguity and start "
               "points are asserted, the observed convention is reported", "SlopeTransformer (no documented closed form)"]
ASSUMPTIONS = ["statsmodels acf/pacf called directly are the reference for the ACF/PACF transformers"]
JOBS = {"quick": 8, "thorough": 16}
KINDS = ["padder", "truncation", "interpolate", "tabularizer", "concatenator", "interval", "sliding", "features", "rowt", "imputer", "series"]
IMPUTE = ["mean", "median", "constant", "ffill", "pad", "bfill", "backfill", "linear", "nearest", "drift", "forecaster"]


def cases(tier, seed):
    rng = np.random.default_rng([seed, 14])
    nmax = 24 if tier == "quick" else 40
    for n in range(1, nmax + 1):
        for k in range(1, n + 1):
            yield {"t": "paa", "n": n, "k": k, "ni": 1 + (n + k) % 3, "nc": 1 + (n * k) % 2, "values": "random" if (n + k) % 2 else "id", "dseed": n * 100 + k}
    reps = 350 if tier == "quick" else 24000
    for r in range(reps):
        for kind in KINDS:
            ni = int(rng.integers(1, 9))
            nc = int(rng.integers(1, 4))
            nt = int(rng.integers(2, 41))
            yield {"t": kind, "ni": ni, "nc": nc, "nt": nt, "unequal": bool(rng.random() < 0.5), "cells": "SA"[int(rng.integers(0, 2))],
                   "values": ["id", "random", "int", "int16"][int(rng.integers(0, 4))], "p": int(rng.integers(0, 10 ** 6)), "dseed": int(rng.integers(0, 2 ** 31))}


# ---------------------------------------------------------------------------------
def _panel(case, allow_unequal=True, force_nc=None, min_len=2):
    ni, nc, nt = case["ni"], force_nc or case["nc"], max(case["nt"], min_len)
    rng = np.random.default_rng([case["dseed"], 1414])
    lens = [nt] * ni
    if allow_unequal and case.get("unequal") and ni > 1:
        lens = [int(rng.integers(min_len, nt + 1)) for _ in range(ni)]
        lens[int(rng.integers(0, ni))] = nt
    data = []
    for i in range(ni):
        row = []
        for j in range(nc):
            if case["values"] == "id":
                row.append(np.array([1e6 * (i + 1) + 1e3 * (j + 1) + t for t in range(lens[i])], dtype=float))
            elif case["values"] == "int":
                row.append(rng.integers(-60, 60, size=lens[i]).astype(float))      # integer-typed cells below; the documented functions are real-valued
            elif case["values"] == "int16":
                row.append(rng.integers(-9000, 9000, size=lens[i]).astype(float))  # narrow integer cells with values in the thousands
            else:
                row.append(np.round(rng.normal(0, 10, size=lens[i]), 5))
        data.append(row)
    cont = (lambda v: pd.Series(v)) if case.get("cells", "S") == "S" else (lambda v: np.array(v))
    if case.get("cells", "S") == "S" and case["dseed"] % 4 in (2, 3):
        # Series cells carrying their own (1-based / offset) time index: the documented functions go by position
        st_ = 1 if case["dseed"] % 4 == 2 else 100
        cont = lambda v: pd.Series(v, index=pd.RangeIndex(st_, st_ + len(v)))  # noqa
    typed = (lambda a: a.astype(np.int64)) if case["values"] == "int" else ((lambda a: a.astype(np.int16)) if case["values"] == "int16" else (lambda a: a.copy()))
    df = pd.DataFrame({"dim_%d" % j: [cont(typed(data[i][j])) for i in range(ni)] for j in range(nc)})
    return data, df, lens


def _cells(out):
    """nested output -> list of rows of float arrays"""
    return [[np.asarray(out.iloc[i, j], dtype=float) for j in range(out.shape[1])] for i in range(out.shape[0])]


def _eq(a, b, tol=0.0):
    a, b = np.asarray(a, dtype=float), np.asarray(b, dtype=float)
    if a.shape != b.shape:
        return False
    if tol == 0.0:
        return bool(np.array_equal(a, b, equal_nan=True))
    return bool(np.allclose(a, b, rtol=tol, atol=tol * (1 + (float(np.nanmax(np.abs(b))) if b.size and not np.all(np.isnan(b)) else 0)), equal_nan=True))


def _nested_eq(ctx, mon, got_rows, exp_rows, key, msg, tol=0.0, **detail):
    ok = len(got_rows) == len(exp_rows) and all(len(g) == len(e) and all(_eq(gc, ec, tol) for gc, ec in zip(g, e)) for g, e in zip(got_rows, exp_rows))
    first_bad = None
    if not ok:
        for i, (g, e) in enumerate(zip(got_rows, exp_rows)):
            for j, (gc, ec) in enumerate(zip(g, e)):
                if not _eq(gc, ec, tol):
                    first_bad = {"instance": i, "column": j, "got": np.asarray(gc).tolist()[:8], "expected": np.asarray(ec).tolist()[:8]}
                    break
            if first_bad:
                break
    ctx.check(mon, ok, key, msg, rows_got=len(got_rows), rows_expected=len(exp_rows), first_difference=first_bad, **detail)
    ctx.check("rows", len(got_rows) == len(exp_rows), key + ":row-count", "output does not keep one row per instance", got=len(got_rows), expected=len(exp_rows))
    return ok


def run_case(case, ctx):
    import warnings
    warnings.simplefilter("ignore")
    globals()["_run_" + case["t"]](case, ctx)
    ctx.tag("t:" + case["t"])


def _run_paa(case, ctx):
    from sktime.transformations.panel.dictionary_based import PAA
    n, k = case["n"], case["k"]
    c2 = dict(case, nt=n, unequal=False, cells="S")
    data, df, _ = _panel(c2, allow_unequal=False, min_len=1)
    ok, out = ctx.call("paa:exception", PAA(num_intervals=k).fit_transform, df)
    if not ok:
        return
    fl = Fraction(n, k)
    exp = []
    for row in data:
        er = []
        for cell in row:
            frames = []
            for f in range(k):
                lo, hi = f * fl, (f + 1) * fl
                s = Fraction(0)
                for t in range(n):
                    ov = min(hi, t + 1) - max(lo, t)
                    if ov > 0:
                        s += ov * Fraction(float(cell[t]))
                frames.append(float(s / fl))
            er.append(np.array(frames))
        exp.append(er)
    _nested_eq(ctx, "paa", _cells(out), exp, "paa:frame-means-differ", "PAA output is not the mean over %d equal (fractional) frames" % k, tol=1e-9, n=n, k=k)
    ctx.event(t="paa", n=n, k=k, first=np.asarray(out.iloc[0, 0]).tolist()[:4])
    ctx.nontrivial = n % k != 0 and k > 1


def _run_padder(case, ctx):
    from sktime.transformations.panel.padder import PaddingTransformer
    data, df, lens = _panel(dict(case, cells="S"))
    mx = max(lens)
    pad_length = None if case["p"] % 3 == 0 else mx + case["p"] % 7
    fill = [0, -1.5, 9999.0][case["p"] % 3]
    tr = PaddingTransformer(pad_length=pad_length, fill_value=fill)
    ok, out = ctx.call("padder:exception", tr.fit_transform, df)
    if not ok:
        return
    L = mx if pad_length is None else pad_length
    exp = [[np.concatenate([cell, np.full(L - len(cell), float(fill))]) for cell in row] for row in data]
    _nested_eq(ctx, "padder", _cells(out), exp, "padder:not-padded-to-length-with-fill", "cells are not the series followed by the fill value up to the pad length",
               pad_length=pad_length, fill=fill, lens=lens)
    # the pad length learned in fit also holds for another panel (here: every series one point shorter)
    data2 = [[cell[:-1] if len(cell) > 1 else cell for cell in row] for row in data]
    df2 = pd.DataFrame({c: [pd.Series(data2[i][j].copy()) for i in range(len(data2))] for j, c in enumerate(df.columns)})
    ok2, out2 = ctx.call("padder:exception:other-panel", tr.transform, df2)
    if ok2:
        exp2 = [[np.concatenate([cell, np.full(L - len(cell), float(fill))]) for cell in row] for row in data2]
        _nested_eq(ctx, "padder", _cells(out2), exp2, "padder:other-panel-not-padded-to-the-fitted-length", "a panel other than the fitted one is not padded to the length learned in fit",
                   pad_length=pad_length, fitted_longest=mx)
    ctx.event(t="padder", lens=lens, pad_length=pad_length, fill=fill)
    ctx.nontrivial = case["ni"] >= 2 and len(set(lens)) > 1


def _run_truncation(case, ctx):
    from sktime.transformations.panel.truncation import TruncationTransformer
    data, df, lens = _panel(dict(case, cells="S"), min_len=3)
    mn = min(lens)
    mode = case["p"] % 3
    if mode == 0:
        lower, upper, lo, hi = None, None, 0, mn
    elif mode == 1:
        lower = 1 + case["p"] % max(mn - 1, 1)
        upper, lo, hi = None, 0, lower
    else:
        lower = case["p"] % max(mn - 1, 1)
        upper = lower + 1 + (case["p"] // 7) % (mn - lower)
        lo, hi = lower, upper
    tr = TruncationTransformer(lower=lower, upper=upper)
    ok, out = ctx.call("truncation:exception", tr.fit_transform, df)
    if not ok:
        return
    exp = [[cell[lo:hi] for cell in row] for row in data]
    _nested_eq(ctx, "truncation", _cells(out), exp, "truncation:wrong-range", "cells are not truncated to the shortest length / requested range [lower, upper)",
               lower=lower, upper=upper, lens=lens)
    # the bounds learned in fit also hold for another panel (here: every series two points longer)
    data2 = [[np.concatenate([cell, cell[-2:] + 1.0]) for cell in row] for row in data]
    df2 = pd.DataFrame({c: [pd.Series(data2[i][j].copy()) for i in range(len(data2))] for j, c in enumerate(df.columns)})
    ok2, out2 = ctx.call("truncation:exception:other-panel", tr.transform, df2)
    if ok2:
        _nested_eq(ctx, "truncation", _cells(out2), [[cell[lo:hi] for cell in row] for row in data2], "truncation:other-panel-not-truncated-to-the-fitted-range",
                   "a panel other than the fitted one is not truncated to the range learned in fit", lower=lower, upper=upper, fitted_shortest=mn)
    ctx.event(t="truncation", lens=lens, lower=lower, upper=upper)
    ctx.nontrivial = case["ni"] >= 2 and (len(set(lens)) > 1 or mode == 2)


def _run_interpolate(case, ctx):
    from sktime.transformations.panel.interpolate import TSInterpolator
    data, df, lens = _panel(dict(case, cells="S"))
    L = 1 + case["p"] % 50
    ok, out = ctx.call("interpolate:exception", TSInterpolator(L).fit_transform, df)
    if not ok:
        return
    exp = []
    for row in data:
        er = []
        for cell in row:
            m = len(cell)
            res = []
            for q in range(L):
                x = 0.0 if L == 1 else q / (L - 1)
                pos = x * (m - 1)
                i0 = min(int(np.floor(pos)), m - 2) if m > 1 else 0
                w = pos - i0
                res.append(cell[i0] * (1 - w) + cell[i0 + 1] * w if m > 1 else cell[0])
            er.append(np.array(res))
        exp.append(er)
    _nested_eq(ctx, "interpolate", _cells(out), exp, "interpolate:not-linear-interpolation-onto-grid", "cells are not the linear interpolation onto linspace(0, 1, length)",
               tol=1e-9, length=L, lens=lens)
    ctx.event(t="interpolate", lens=lens, length=L)
    ctx.nontrivial = case["ni"] >= 2 and L not in lens


def _layout(arr, case):
    """the same 3-d array in another memory layout (values, not strides, define a panel): C order, Fortran order, or the transposed view of a
    (time, column, instance) recording"""
    k = (case["p"] // 2) % 3
    return [arr, np.asfortranarray(arr), np.ascontiguousarray(arr.transpose(2, 1, 0)).T][k]


def _run_tabularizer(case, ctx):
    from sktime.transformations.panel.reduce import Tabularizer
    data, df, lens = _panel(case, allow_unequal=False)
    arr = np.array(data)
    use_np = case["p"] % 2 == 0
    ok, out = ctx.call("tabularizer:exception", Tabularizer().fit_transform, _layout(arr, case) if use_np else df)
    if not ok:
        return
    exp = arr.reshape(arr.shape[0], -1)
    got = np.asarray(out, dtype=float)
    ctx.check("tabularizer", _eq(got, exp), "tabularizer:not-column-then-time-order", "tabular output is not [instance, column-major then time]",
              shape=list(got.shape), expected_shape=list(exp.shape), first=got[0][:6].tolist(), expected_first=exp[0][:6].tolist())
    ctx.check("rows", got.shape[0] == arr.shape[0], "tabularizer:row-count", "row count changed")
    if arr.shape[1] == 1:
        ok, back = ctx.call("tabularizer:inverse-exception", Tabularizer().fit(df).inverse_transform, exp)
        if ok:
            _nested_eq(ctx, "tabularizer", _cells(back), [[r] for r in exp], "tabularizer:inverse-not-identity", "inverse_transform does not restore the series")
    ctx.event(t="tabularizer", shape=list(arr.shape), numpy_input=use_np)
    ctx.nontrivial = arr.shape[0] >= 2 and arr.shape[1] >= 2


def _run_concatenator(case, ctx):
    from sktime.transformations.panel.compose import ColumnConcatenator
    data, df, lens = _panel(case, allow_unequal=False)
    arr = np.array(data)
    ok, out = ctx.call("concatenator:exception", ColumnConcatenator().fit_transform, _layout(arr, case) if case["p"] % 2 else df)
    if not ok:
        return
    exp = [[arr[i].reshape(-1)] for i in range(arr.shape[0])]
    _nested_eq(ctx, "concatenator", _cells(out), exp, "concatenator:not-columns-then-time", "concatenated series is not column after column in time order")
    ctx.nontrivial = arr.shape[0] >= 2 and arr.shape[1] >= 2


def _run_interval(case, ctx):
    from sktime.transformations.panel.segment import IntervalSegmenter
    data, df, lens = _panel(case, allow_unequal=False, force_nc=1, min_len=4)
    arr = np.array(data)[:, 0, :]
    n = arr.shape[1]
    rng = np.random.default_rng([case["dseed"], 7])
    if case["p"] % 2 == 0:
        m = int(rng.integers(1, 5))
        starts = rng.integers(0, n - 1, size=m)
        ivs = np.array([[s, int(rng.integers(s + 1, n + 1))] for s in starts])
        ok, out = ctx.call("interval:exception", IntervalSegmenter(ivs).fit_transform, df)
        if not ok:
            return
        exp = [[arr[i, s:e] for s, e in ivs] for i in range(arr.shape[0])]
        _nested_eq(ctx, "interval-segmenter", _cells(out), exp, "interval-segmenter:not-X[:, start:end]", "segments are not X[:, start:end] of the given intervals",
                   intervals=ivs.tolist())
        ctx.nontrivial = arr.shape[0] >= 2
    else:
        k = 1 + case["p"] % max(n // 2, 1)
        ok, out = ctx.call("interval:exception", IntervalSegmenter(int(k)).fit_transform, df)
        if not ok:
            return
        cells = _cells(out)
        ctx.check("interval-segmenter", out.shape == (arr.shape[0], k), "interval-segmenter:int:count", "number of segments differs from the requested number", got=list(out.shape), k=k)
        ctx.check("rows", out.shape[0] == arr.shape[0], "interval-segmenter:int:row-count", "row count changed")
        # contiguity / order / start points: every segment is a slice of its series, segments are ordered and do not overlap
        good = True
        conv = set()
        for i in range(arr.shape[0]):
            pos = 0
            for seg in cells[i]:
                idx = [int(np.where(arr[i] == v)[0][0]) for v in seg] if case["values"] == "id" else None
                if idx is not None:
                    if idx != list(range(idx[0], idx[0] + len(idx))) if idx else False:
                        good = False
                    if idx and idx[0] < pos:
                        good = False
                    if idx:
                        pos = idx[-1] + 1
            if case["values"] == "id":
                covered = sum(len(s) for s in cells[i])
                conv.add("all-points" if covered == n else "drops-%d-points" % (n - covered))
        ctx.check("interval-segmenter", good, "interval-segmenter:int:not-ordered-contiguous-slices", "integer intervals are not ordered, contiguous, non-overlapping slices")
        for c in conv:
            ctx.tag("observation:interval-segmenter-int:" + c)
        ctx.nontrivial = arr.shape[0] >= 2 and k > 1


def _run_sliding(case, ctx):
    from sktime.transformations.panel.segment import SlidingWindowSegmenter
    data, df, lens = _panel(case, allow_unequal=False, force_nc=1)
    arr = np.array(data)[:, 0, :]
    n = arr.shape[1]
    wl = 1 + case["p"] % min(n, 9)
    ok, out = ctx.call("sliding:exception", SlidingWindowSegmenter(window_length=wl).fit_transform, df)
    if not ok:
        return
    pad = wl // 2
    exp = []
    for i in range(arr.shape[0]):
        padded = [arr[i, 0]] * pad + list(arr[i]) + [arr[i, -1]] * pad
        exp.append([np.array(padded[j:j + wl]) for j in range(n)])
    _nested_eq(ctx, "sliding-window", _cells(out), exp, "sliding-window:not-edge-padded-windows", "windows are not the edge-padded subsequences of the documented example",
               window_length=wl, n=n)
    ctx.nontrivial = arr.shape[0] >= 2 and wl > 1


def _std(a, axis):
    return np.std(a, axis=axis)


def _custom_range(a):
    return float(np.max(a) - np.min(a))


def _run_features(case, ctx):
    from sktime.transformations.panel.summarize import RandomIntervalFeatureExtractor
    from sktime.utils.slope_and_trend import _slope
    data, df, lens = _panel(case, allow_unequal=False, force_nc=1, min_len=6)
    arr = np.array(data)[:, 0, :]
    feats = [[np.mean], [np.mean, np.std, _slope], [_custom_range, np.mean], None][case["p"] % 4]
    tr = RandomIntervalFeatureExtractor(n_intervals=[1, 3, "sqrt", 0.5][case["p"] % 4], features=feats, random_state=case["p"] % 17)
    ok, _ = ctx.call("features:fit-exception", tr.fit, df)
    if not ok:
        return
    # apply to other data than it was fitted on
    c2 = dict(case, dseed=case["dseed"] + 1, ni=max(case["ni"], 2))
    data2, df2, _ = _panel(c2, allow_unequal=False, force_nc=1, min_len=6)
    arr2 = np.array(data2)[:, 0, :][:, :arr.shape[1]]
    if arr2.shape[1] != arr.shape[1]:
        arr2, df2 = arr, df
    ok, out = ctx.call("features:transform-exception", tr.transform, df2)
    if not ok:
        return
    F = feats or [np.mean]
    exp = np.zeros((arr2.shape[0], len(F) * len(tr.intervals_)))
    col = 0
    for f in F:
        for s, e in tr.intervals_:
            for i in range(arr2.shape[0]):
                seg = arr2[i, s:e]
                if f is np.mean:
                    exp[i, col] = sum(seg) / len(seg)
                elif f is np.std:
                    m = sum(seg) / len(seg)
                    exp[i, col] = (sum((v - m) ** 2 for v in seg) / len(seg)) ** 0.5
                elif f is _slope:
                    exp[i, col] = np.polyfit(np.arange(len(seg)), seg, 1)[0] if len(seg) > 1 else 0.0
                else:
                    exp[i, col] = max(seg) - min(seg)
            col += 1
    ivs_ok = all(0 <= s < e <= arr.shape[1] for s, e in tr.intervals_)
    ctx.check("interval-features", ivs_ok, "interval-features:fitted-interval-outside-series", "a fitted interval lies outside the series", intervals=np.asarray(tr.intervals_).tolist())
    got = np.asarray(out, dtype=float)
    ctx.check("interval-features", _eq(got, exp, 1e-7), "interval-features:not-features-of-fitted-intervals", "features are not the summary functions of X[:, start:end] for the fitted intervals",
              shape=list(got.shape), expected_shape=list(exp.shape), intervals=np.asarray(tr.intervals_).tolist()[:5], got=got[0][:6].tolist(), expected=exp[0][:6].tolist())
    ctx.check("rows", got.shape[0] == arr2.shape[0], "interval-features:row-count", "row count changed")
    ctx.nontrivial = arr2.shape[0] >= 2 and len(tr.intervals_) >= 1


def _run_rowt(case, ctx):
    from sktime.transformations.panel.compose import SeriesToPrimitivesRowTransformer, SeriesToSeriesRowTransformer
    from sktime.transformations.series.boxcox import LogTransformer
    from sktime.transformations.series.cos import CosineTransformer
    from sktime.transformations.series.summarize import MeanTransformer
    data, df, lens = _panel(dict(case, values="random"), allow_unequal=False)
    arr = np.abs(np.array(data)) + 1.0
    which = case["p"] % 3

    def used(rt, target):
        """half of the cases: the row transformer starts with another wrapped transformer, is applied to a panel of the same size and is then
        reconfigured - what it does afterwards is the wrapped transformer of its current configuration on every cell"""
        if (case["p"] // 3) % 2 == 0:
            return rt
        try:
            rt.fit_transform(arr[::-1] * 0.5 + 2.0)
            rt.transform(arr * 0.25 + 1.0)
            ctx.tag("row-transformer:used-then-reconfigured")
        except Exception as e:  # noqa
            ctx.tag("row-transformer:earlier-life-refused:" + type(e).__name__)
        return rt.set_params(transformer=target)
    if which == 0:
        ok, out = ctx.call("rowt:exception", used(SeriesToSeriesRowTransformer(LogTransformer() if (case["p"] // 3) % 2 else CosineTransformer(), check_transformer=bool(case["p"] % 2)),
                                                  CosineTransformer()).fit_transform, arr)
        exp = [[np.cos(arr[i, j]) for j in range(arr.shape[1])] for i in range(arr.shape[0])]
    elif which == 1:
        ok, out = ctx.call("rowt:exception", used(SeriesToSeriesRowTransformer(CosineTransformer() if (case["p"] // 3) % 2 else LogTransformer()), LogTransformer()).fit_transform, arr)
        exp = [[np.log(arr[i, j]) for j in range(arr.shape[1])] for i in range(arr.shape[0])]
    else:
        class MaxT(MeanTransformer):
            def transform(self, Z, X=None):
                return np.max(np.asarray(Z), axis=0)
        ok, out = ctx.call("rowt:exception", used(SeriesToPrimitivesRowTransformer(MaxT() if (case["p"] // 3) % 2 else MeanTransformer()), MeanTransformer()).fit_transform, arr)
        if ok:
            e2 = np.array([[sum(arr[i, j]) / arr.shape[2] for j in range(arr.shape[1])] for i in range(arr.shape[0])])
            ctx.check("row-transformers", _eq(np.asarray(out, dtype=float), e2, 1e-12), "row-transformers:primitives-not-cell-wise", "primitive row transformer is not the wrapped transformer applied to every cell")
            ctx.check("rows", len(out) == arr.shape[0], "row-transformers:row-count", "row count changed")
            ctx.nontrivial = arr.shape[0] >= 2
        return
    if ok:
        _nested_eq(ctx, "row-transformers", _cells(out), exp, "row-transformers:series-not-cell-wise", "series row transformer is not the wrapped transformer applied to every cell", tol=1e-12)
        ctx.nontrivial = arr.shape[0] >= 2 and arr.shape[1] >= 2


def _run_imputer(case, ctx):
    from sktime.forecasting.trend import PolynomialTrendForecaster
    from sktime.transformations.series.impute import Imputer
    rng = np.random.default_rng([case["dseed"], 4])
    n = max(case["nt"], 6)
    vals = np.round(20 + 0.8 * np.arange(n) + rng.normal(0, 2, size=n), 3)
    pattern = ["interior", "leading", "trailing", "runs", "none"][case["p"] % 5]
    mask = np.zeros(n, dtype=bool)
    if pattern == "interior":
        mask[rng.integers(1, n - 1, size=max(1, n // 5))] = True
    elif pattern == "leading":
        mask[:int(rng.integers(1, 3))] = True
    elif pattern == "trailing":
        mask[-int(rng.integers(1, 3)):] = True
    elif pattern == "runs":
        s = int(rng.integers(1, n - 3))
        mask[s:s + 3] = True
        mask[0] = rng.random() < 0.3
    mask[: n] = mask[: n] & ~(np.arange(n) == int(np.argmax(~mask)))   # keep at least one observation
    z = vals.copy()
    z[mask] = np.nan
    method = IMPUTE[(case["p"] // 5) % len(IMPUTE)]
    off = [0, 7, -3][case["p"] % 3]
    zs = pd.Series(z, index=pd.RangeIndex(off, off + n))
    kw = {"method": method}
    if method == "constant":
        kw["value"] = -7.5
    if method == "forecaster":
        kw["forecaster"] = PolynomialTrendForecaster(degree=2)
    ok, out = ctx.call("imputer:exception:" + method, Imputer(**kw).fit_transform, zs.copy())
    if not ok:
        return
    obs = [i for i in range(n) if not mask[i]]

    def ffill_bfill(a):
        a = list(a)
        last = None
        for i in range(n):
            if not np.isnan(a[i]):
                last = a[i]
            elif last is not None:
                a[i] = last
        nxt = None
        for i in reversed(range(n)):
            if not np.isnan(a[i]):
                nxt = a[i]
            elif nxt is not None:
                a[i] = nxt
        return a

    def bfill_ffill(a):
        a = list(a)
        nxt = None
        for i in reversed(range(n)):
            if not np.isnan(a[i]):
                nxt = a[i]
            elif nxt is not None:
                a[i] = nxt
        return ffill_bfill(a)

    if method == "mean":
        m = sum(z[i] for i in obs) / len(obs)
        exp = [z[i] if not mask[i] else m for i in range(n)]
    elif method == "median":
        s = sorted(z[i] for i in obs)
        m = s[len(s) // 2] if len(s) % 2 else 0.5 * (s[len(s) // 2 - 1] + s[len(s) // 2])
        exp = [z[i] if not mask[i] else m for i in range(n)]
    elif method == "constant":
        exp = [z[i] if not mask[i] else -7.5 for i in range(n)]
    elif method in ("ffill", "pad"):
        exp = ffill_bfill(z)
    elif method in ("bfill", "backfill"):
        exp = bfill_ffill(z)
    elif method == "linear":
        exp = list(z)
        for i in range(n):
            if mask[i]:
                prev = max([j for j in obs if j < i], default=None)
                nxt = min([j for j in obs if j > i], default=None)
                if prev is not None and nxt is not None:
                    exp[i] = z[prev] + (z[nxt] - z[prev]) * (i - prev) / (nxt - prev)
                elif prev is not None:
                    exp[i] = z[prev]
                else:
                    exp[i] = z[nxt]
    elif method == "nearest":
        exp = list(z)
        amb = False
        for i in range(n):
            if mask[i]:
                prev = max([j for j in obs if j < i], default=None)
                nxt = min([j for j in obs if j > i], default=None)
                if prev is not None and nxt is not None:
                    if i - prev == nxt - i:
                        amb = True
                    exp[i] = z[prev] if i - prev <= nxt - i else z[nxt]
                else:
                    exp[i] = z[prev] if prev is not None else z[nxt]
        if amb:
            ctx.ambiguous += 1
            return
    else:  # drift / forecaster: trend fitted on the heuristically (ffill/bfill) filled series, NaNs take the in-sample trend value
        filled = np.array(ffill_bfill(z))
        deg = 1 if method == "drift" else 2
        coef = np.polyfit(np.arange(n, dtype=float), filled, deg)
        trend = np.polyval(coef, np.arange(n, dtype=float))
        exp = [z[i] if not mask[i] else trend[i] for i in range(n)]
    got = np.asarray(out, dtype=float)
    ctx.check("imputer", list(out.index) == list(zs.index), "imputer:index-changed", "imputer changed the index")
    ctx.check("imputer", _eq(got, exp, 1e-7), "imputer:%s:not-the-documented-rule" % method, "imputed values differ from the documented %s rule" % method,
              pattern=pattern, series=z.tolist(), got=got.tolist(), expected=[float(v) for v in exp])
    ctx.check("imputer", not np.any(np.isnan(got)), "imputer:%s:nan-left" % method, "missing values left after imputation")
    ctx.event(t="imputer", method=method, pattern=pattern, n=n)
    ctx.nontrivial = bool(mask.any())


def _run_series(case, ctx):
    from sklearn.preprocessing import MinMaxScaler, StandardScaler
    from sktime.transformations.series.acf import AutoCorrelationTransformer, PartialAutoCorrelationTransformer
    from sktime.transformations.series.adapt import TabularToSeriesAdaptor
    from sktime.transformations.series.cos import CosineTransformer
    from sktime.transformations.series.summarize import MeanTransformer
    from sktime.utils.slope_and_trend import _slope
    rng = np.random.default_rng([case["dseed"], 5])
    n = max(case["nt"], 12)
    off = [0, 11, -4][case["p"] % 3]
    v = np.round(rng.normal(2, 3, size=n) + 0.3 * np.arange(n), 4)
    zs = pd.Series(v, index=pd.RangeIndex(off, off + n))
    which = case["p"] % 6
    if which == 0:
        ok, out = ctx.call("series:cos-exception", CosineTransformer().fit_transform, zs)
        if ok:
            ctx.check("series-closed-form", _eq(np.asarray(out), [np.cos(x) for x in v], 1e-15) and list(out.index) == list(zs.index), "series:cosine", "cosine transformer is not cos(z)")
    elif which == 1:
        from statsmodels.tsa.stattools import acf
        lags = 1 + case["p"] % 5
        adjusted, fft = bool((case["p"] // 6) % 2), bool((case["p"] // 12) % 2)        # the options of the estimate: adjusted denominators (n - k), FFT evaluation
        ok, out = ctx.call("series:acf-exception", AutoCorrelationTransformer(n_lags=lags, adjusted=adjusted, fft=fft).fit_transform, zs)
        if ok:
            ctx.check("series-closed-form", _eq(np.asarray(out), acf(v, nlags=lags, fft=False, adjusted=adjusted), 1e-10), "series:acf", "ACF transformer differs from the autocorrelation coefficients",
                      adjusted=adjusted, fft=fft)
            # independent definition: sum of lagged products over n (or over n - k when adjusted), relative to lag 0
            m = v.mean()
            cov = [float(np.sum((v[: n - k] - m) * (v[k:] - m)) / ((n - k) if adjusted else n)) for k in range(lags + 1)]
            ref = [c / cov[0] for c in cov]
            ctx.check("series-closed-form", _eq(np.asarray(out), ref, 1e-9), "series:acf-definition", "ACF differs from its definition (lagged products over n, or over n - k when adjusted)",
                      adjusted=adjusted, fft=fft, got=np.asarray(out)[:4].tolist(), expected=ref[:4])
    elif which == 2:
        from statsmodels.tsa.stattools import pacf
        lags = 1 + case["p"] % 4
        ok, out = ctx.call("series:pacf-exception", PartialAutoCorrelationTransformer(n_lags=lags).fit_transform, zs)
        if ok:
            ctx.check("series-closed-form", _eq(np.asarray(out), pacf(v, nlags=lags, method="ywadjusted"), 1e-12), "series:pacf", "PACF transformer differs from statsmodels pacf")
    elif which == 3:
        k = 1 + case["p"] % 3
        Z = pd.DataFrame({"c%d" % j: v * (j + 1) + j for j in range(k)}, index=zs.index)
        sc = [StandardScaler(), MinMaxScaler()][case["p"] % 2]
        arg = Z if k > 1 else zs
        # the adaptor may have been used before: fitted on other data with another wrapped transformer / another setting, then reconfigured
        hist = (case["p"] // 6) % 3
        centred = True
        if hist == 0:
            ad = TabularToSeriesAdaptor(sc)
        else:
            other = pd.Series(np.linspace(-40.0, 90.0, 9), index=pd.RangeIndex(3, 12))
            othr = other if k == 1 else pd.DataFrame({"c%d" % j: other * (j + 2) for j in range(k)})
            if hist == 1:
                ad = TabularToSeriesAdaptor([MinMaxScaler(), StandardScaler()][case["p"] % 2])
                ad.fit(othr)
                ad.set_params(transformer=sc)
                ctx.tag("adaptor:used-then-transformer-replaced")
            else:
                ad = TabularToSeriesAdaptor(sc)
                ad.fit(othr)
                if case["p"] % 2 == 0:
                    ad.set_params(transformer__with_mean=False)
                    centred = False
                else:
                    ad.set_params(transformer__feature_range=(0, 1))
                ctx.tag("adaptor:used-then-nested-parameter-set")
        ok, out = ctx.call("series:adaptor-exception", ad.fit_transform, arg)
        if ok:
            A = Z.values if k > 1 else v.reshape(-1, 1)
            if case["p"] % 2 == 0:
                exp = (A - (A.mean(axis=0) if centred else 0.0)) / A.std(axis=0)
            else:
                exp = (A - A.min(axis=0)) / (A.max(axis=0) - A.min(axis=0))
            got = np.asarray(out, dtype=float).reshape(len(A), -1)
            ctx.check("series-closed-form", _eq(got, exp, 1e-9) and list(out.index) == list(zs.index), "series:tabular-adaptor-not-column-wise",
                      "adaptor output is not the wrapped tabular transformer applied column by column", got=got[:2].tolist(), expected=exp[:2].tolist())
    elif which == 4:
        ok, out = ctx.call("series:mean-exception", MeanTransformer().fit_transform, zs)
        if ok:
            ctx.check("series-closed-form", _eq([float(out)], [sum(v) / n], 1e-12), "series:mean-transformer", "MeanTransformer is not the mean")
    else:
        A = rng.normal(0, 3, size=(4, n))
        ok, out = ctx.call("series:slope-exception", _slope, A, 1)
        if ok:
            ref = [np.polyfit(np.arange(n), A[i], 1)[0] for i in range(4)]
            ctx.check("series-closed-form", _eq(np.asarray(out).ravel(), ref, 1e-9), "series:_slope-not-least-squares-slope", "_slope differs from the least-squares slope")
    ctx.event(t="series", which=which, n=n)
    ctx.nontrivial = True
