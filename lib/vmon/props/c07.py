"""C07 - evaluate() reports what an honest per-fold fit, predict and score would give.

(a) reference fold loop written against the public API only (fresh clones per fold for
refit; one clone fitted on fold 0 and updated with each later training window for update),
scored as metric(y_true, y_pred); (b) a recording forecaster logs everything it is given:
an online leak monitor over that log checks that no observation at or after a fold's first
test time point arrives before that fold's prediction."""
import numpy as np
import pandas as pd

from vmon import spies, zoo

PID = "C07"
LEVEL = "exploration"
RULE = ("cases = (forecaster spec, splitter spec, series length/offset, fh set, strategy, metric, with/without exogenous X, "
        "return_data); metrics include argument-asymmetric ones so that a swap is visible; non-trivial: >= 2 folds and "
        "(asymmetric metric or update strategy or exogenous data or gapped fh or sliding window); distinct = distinct case dict")
ANCHOR_FILES = ["sktime/forecasting/model_evaluation/_functions.py", "sktime/forecasting/model_selection/_split.py",
                "sktime/utils/validation/forecasting.py"]
REQUIRED_REACH = ["_functions.py:evaluate", "_functions.py:_split", "forecasting.py:check_scoring"]
REQUIRED_MONITORS = ["rows", "row.score", "row.cutoff", "row.len_train_window", "leak", "return_data"]
NOT_COVERED = ["strategy='update' with horizon-dependent forecasters (direct/multioutput/dirrec/stacking): evaluate passes an absolute "
               "horizon per fold, which these forecasters reject after the first fold", "fit_params"]
ASSUMPTIONS = ["splits are taken from the splitter itself (their correctness is C01's business)"]
JOBS = {"quick": 4, "thorough": 16}
METRICS = [None, "mape", "asym", "asym_fn", "mse", "smape", "neg_mae", "neg_asym", "rmspe", "mdspe", "mdae", "rmse", "asym_thr"]    # neg_*: user-made scorers declared greater-is-better
FORECASTERS = [
    ["spy-naive", {"strategy": "last"}], ["spy-naive", {"strategy": "mean", "window_length": 4}], ["spy-poly", {"degree": 1}],
    ["naive", {"strategy": "drift"}], ["naive", {"strategy": "last", "sp": 3}], ["poly", {"degree": 2}],
    ["reduce", {"strategy": "recursive", "window_length": 3, "reg": "lin"}],
    ["reduce", {"strategy": "direct", "window_length": 2, "reg": "lin"}],
    ["ensemble", {"aggfunc": "mean"}, [["naive", {"strategy": "last"}], ["poly", {"degree": 1}]]],
    ["pipeline", {}, [["detrend", {"degree": 1}]], ["naive", {"strategy": "mean", "window_length": 3}]],
    ["es", {"trend": "add"}],
]


def cases(tier, seed):
    rng = np.random.default_rng([seed, 7])
    n_cases = 260 if tier == "quick" else 9000
    fhs = [[1], [1, 2], [1, 2, 3], [2], [1, 3], [2, 5], [3]]
    for i in range(n_cases):
        f = FORECASTERS[i % len(FORECASTERS)]
        if f[0] == "es" and i % 3:
            f = FORECASTERS[(i // 3) % 3]
        fh = fhs[int(rng.integers(0, len(fhs)))]
        wl = int(rng.integers(9, 14))   # >= reduction window (3) + max(fh) (5) + 1
        n = int(rng.integers(wl + max(fh) + 3, 46))
        step = int(rng.integers(1, 5))
        cvkind = ["sliding", "expanding", "single"][int(rng.integers(0, 3))]
        if cvkind == "sliding":
            cv = ["sliding", {"fh": fh, "window_length": wl, "step_length": step}]
            if rng.random() < 0.35:
                # a longer first window, then windows of the regular length
                iw = int(rng.integers(wl + 1, wl + 9))
                cv[1]["initial_window"] = iw
                n = max(n, iw + max(fh) + 3 + int(rng.integers(0, 8)))
        elif cvkind == "expanding":
            cv = ["expanding", {"fh": fh, "initial_window": wl, "step_length": step}]
        else:
            cv = ["single", {"fh": fh, "window_length": wl if rng.random() < 0.5 else None}]
            if rng.random() < 0.3:
                # a window longer than the history before the test points (the splitter documents to use what is there)
                cv[1]["window_length"] = n - max(fh) + int(rng.integers(1, max(fh) + 1))
        if cvkind != "single" and rng.random() < 0.15:
            # the shortest series the splitter accepts: exactly one fold (first window + farthest step = length), or one observation more
            n = cv[1].get("initial_window", wl) + max(fh) + int(rng.integers(0, 2))
        strategy = "refit" if rng.random() < 0.5 else "update"
        if zoo.requires_fh_in_fit(f) if not f[0].startswith("spy") else False:
            strategy = "refit"
        takes_x = f[0] in ("spy-naive", "naive") or (f[0] == "reduce" and f[1]["strategy"] in ("recursive", "direct"))
        yield {"forecaster": f, "cv": cv, "n": n, "off": int(rng.choice([0, 5, -20, 1000])), "strategy": strategy,
               "scoring": METRICS[int(rng.integers(0, len(METRICS)))], "withX": bool(takes_x and rng.random() < 0.4),
               "return_data": bool(rng.random() < 0.4), "dseed": int(rng.integers(0, 2 ** 31)),
               "idx": "range" if rng.random() < 0.6 else "int"}


def _build(spec, lid):
    if spec[0] == "spy-naive":
        return spies.spy_forecaster_class("naive")(log_id=lid, **spec[1])
    if spec[0] == "spy-poly":
        return spies.spy_forecaster_class("poly")(log_id=lid, **spec[1])
    return zoo.build(spec)


def _close(a, b):
    a, b = float(a), float(b)
    return abs(a - b) <= 1e-9 * max(1.0, abs(a), abs(b))


def run_case(case, ctx):
    from sklearn.base import clone
    from sktime.forecasting.base import ForecastingHorizon
    from sktime.forecasting.model_evaluation import evaluate

    lid = spies.new_log()
    try:
        rng = np.random.default_rng([case["dseed"], 77])
        n, off = case["n"], case["off"]
        y = zoo.make_series(rng, n, positive=True, off=off, index=case["idx"], integer=case["dseed"] % 5 == 0)
        X = None
        if case["withX"]:
            X = pd.DataFrame({"zeta": rng.normal(0, 1, n), "alpha": np.arange(n) * 0.1}, index=y.index)      # column labels not in sorted order
        cv = zoo.build_cv(case["cv"])
        if case["dseed"] % 4 == 1 and case["cv"][0] in ("sliding", "expanding"):
            # a splitter object with an earlier life: used on this series under another step length, then set back to the case's own
            own = cv.step_length
            cv.step_length = own + 2
            list(cv.split(y))
            cv.step_length = own
            ctx.tag("splitter:used-before-under-another-step-length")
        scoring = zoo.build_metric(case["scoring"])
        f = _build(case["forecaster"], lid)
        # the folds of the case, from a newly made splitter (the one handed to evaluate may have a history)
        splits_new = [(np.asarray(tr), np.asarray(te)) for tr, te in zoo.build_cv(case["cv"]).split(y)]
        splits = [(np.asarray(tr), np.asarray(te)) for tr, te in cv.split(y)]
        ctx.check("rows", len(splits) == len(splits_new) and all(np.array_equal(a[0], b[0]) and np.array_equal(a[1], b[1]) for a, b in zip(splits, splits_new)),
                  "evaluate:used-splitter-yields-other-folds-than-a-new-one", "a splitter object that was used before yields other folds than a newly made splitter with the same settings",
                  used=len(splits), new=len(splits_new))
        for i_, (tr_, te_) in enumerate(splits):
            # what evaluate is asked to do must itself be honest: a fold whose training window reaches its own test points cannot be scored without look-ahead
            ctx.check("leak", len(tr_) > 0 and len(te_) > 0 and int(tr_.max()) < int(te_.min()), "evaluate:fold-training-window-reaches-its-test-points",
                      "the splitter hands evaluate a fold whose training window contains a time point at or after the fold's first test point", fold=i_,
                      last_train=int(tr_.max()) if len(tr_) else None, first_test=int(te_.min()) if len(te_) else None, cv=case["cv"])
            # ... and the test points of a fold are the requested steps after its cutoff, whatever container the horizon was given in
            want_ = [int(tr_.max()) + h_ for h_ in case["cv"][1]["fh"]] if len(tr_) else None
            ctx.check("rows", want_ is not None and [int(v) for v in te_] == want_, "evaluate:fold-test-points-not-the-requested-steps-after-the-cutoff",
                      "the folds evaluate is given do not test the requested steps after each cutoff", fold=i_, got=[int(v) for v in te_][:8], expected=want_,
                      horizon_container=type(case["cv"][1]["fh"]).__name__ if not isinstance(case["cv"][1]["fh"], list) else type(getattr(cv, "fh", None)).__name__)
        fspec = case["forecaster"]
        # ---- code under test ------------------------------------------------------------
        ok, res = ctx.call("evaluate:exception", evaluate, f, cv, y.copy(), None if X is None else X.copy(), strategy=case["strategy"],
                           scoring=scoring, return_data=case["return_data"])
        if not ok:
            return
        spy_log = list(spies.log(lid))
        # ---- reference fold loop --------------------------------------------------------
        import sktime.performance_metrics.forecasting as M
        metric = scoring if scoring is not None else M.MeanAbsolutePercentageError()
        lid2 = spies.new_log()
        ref_rows = []
        try:
            g = None
            for i, (tr, te) in enumerate(splits):
                y_tr, y_te = y.iloc[tr], y.iloc[te]
                X_tr = None if X is None else X.iloc[tr]
                X_te = None if X is None else X.iloc[tr[-1] + 1: te[-1] + 1]
                fh = ForecastingHorizon(y_te.index, is_relative=False)
                if i == 0 or case["strategy"] == "refit":
                    g = _build(fspec, lid2)
                    g.fit(y_tr.copy(), None if X_tr is None else X_tr.copy(), fh=fh)
                else:
                    g.update(y_tr.copy(), None if X_tr is None else X_tr.copy())
                y_pred = g.predict(fh, X=None if X_te is None else X_te.copy())
                ref_rows.append({"score": float((zoo.metric_reference(case["scoring"]) or metric)(y_te, y_pred)), "cutoff": y_tr.index[-1], "len": len(tr), "y_pred": y_pred,
                                 "y_train": y_tr, "y_test": y_te})
        finally:
            spies.drop(lid2)
        # ---- compare ---------------------------------------------------------------------
        col = "test_" + metric.name
        ctx.check("rows", len(res) == len(splits), "evaluate:row-count", "number of result rows differs from the number of splits",
                  rows=len(res), splits=len(splits))
        ctx.check("rows", col in res.columns, "evaluate:score-column-name", "score column is not test_<metric name>", columns=list(res.columns))
        # the splitter's own report: one row per split it announces, at the cutoffs it announces
        try:
            n_rep, c_rep = int(cv.get_n_splits(y)), [int(y.index[c]) for c in cv.get_cutoffs(y)]
        except Exception as e:  # noqa
            n_rep, c_rep = None, None
            ctx.tag("splitter-report-failed:" + type(e).__name__)
        if n_rep is not None:
            ctx.check("rows", len(res) == n_rep and [int(c) for c in res["cutoff"]] == c_rep, "evaluate:rows-not-the-splits-the-splitter-reports",
                      "result rows / cutoffs are not the splits the splitter reports (get_n_splits / get_cutoffs)", rows=len(res), reported=n_rep,
                      cutoffs=[int(c) for c in res["cutoff"]][:8], reported_cutoffs=c_rep[:8])
        if len(res) != len(splits) or col not in res.columns:
            return
        for i, r in enumerate(ref_rows):
            ctx.check("row.score", _close(res[col].iloc[i], r["score"]), "evaluate:score-differs:%s" % ("asymmetric-metric" if case["scoring"] in ("mape", "asym", "asym_thr", "asym_fn", "neg_asym") else "metric"),
                      "score of fold %d differs from metric(y_true, y_pred) of an honest fold computation" % i, fold=i, got=float(res[col].iloc[i]),
                      expected=r["score"], metric=metric.name, strategy=case["strategy"])
            ctx.check("row.cutoff", res["cutoff"].iloc[i] == r["cutoff"], "evaluate:cutoff-differs", "cutoff column wrong", fold=i,
                      got=res["cutoff"].iloc[i], expected=r["cutoff"])
            ctx.check("row.len_train_window", int(res["len_train_window"].iloc[i]) == r["len"], "evaluate:len_train_window-differs",
                      "len_train_window wrong", fold=i, got=int(res["len_train_window"].iloc[i]), expected=r["len"])
            if case["return_data"]:
                good = (res["y_train"].iloc[i].equals(r["y_train"]) and res["y_test"].iloc[i].equals(r["y_test"])
                        and list(res["y_pred"].iloc[i].index) == list(r["y_pred"].index)
                        and np.allclose(res["y_pred"].iloc[i].values, r["y_pred"].values, rtol=1e-9, atol=1e-9))
                ctx.check("return_data", good, "evaluate:return_data-differs", "returned y_train / y_test / y_pred differ from the fold's data", fold=i)
        if not case["return_data"]:
            ctx.check("return_data", not any(c in res.columns for c in ("y_train", "y_test", "y_pred")), "evaluate:return_data-columns-present",
                      "data columns present although return_data=False")
        # ---- leak monitor over the spy log ----------------------------------------------------
        if fspec[0].startswith("spy"):
            max_seen = None
            n_pred = 0
            for ev in spy_log:
                if ev["op"] in ("fit", "update") and ev["y"] is not None:
                    max_seen = ev["y"][1] if max_seen is None else max(max_seen, ev["y"][1])
                    if ev["X"] is not None:
                        ctx.check("leak", ev["X"][1] <= ev["y"][1], "evaluate:leak:X_train-beyond-training-window", "training exogenous data extend beyond the training window")
                elif ev["op"] == "predict":
                    te_first = int(y.index[splits[n_pred][1][0]]) if n_pred < len(splits) else None
                    ctx.check("leak", te_first is not None and max_seen is not None and max_seen < te_first,
                              "evaluate:leak:observation-at-or-after-first-test-point", "the forecaster was given an observation at or after the fold's "
                              "first test time point before predicting", fold=n_pred, max_time_seen=max_seen, first_test_time=te_first)
                    ctx.check("leak", n_pred < len(splits) and ev["index"] == [int(v) for v in y.index[splits[n_pred][1]]],
                              "evaluate:predicted-time-points-not-the-test-points", "forecaster was asked for other time points than the fold's test points",
                              fold=n_pred, asked=ev["index"])
                    if X is not None and n_pred < len(splits):
                        # the exogenous rows handed over for the forecast: every time point after the fold's cutoff up to its last test point
                        # (forecasters that step through the horizon need the rows in between as well), and nothing else
                        c_lab, last_lab = int(y.index[splits[n_pred][0][-1]]), int(y.index[splits[n_pred][1][-1]])
                        ctx.check("leak", ev.get("X_index") == list(range(c_lab + 1, last_lab + 1)), "evaluate:exogenous-rows-for-predict-not-cutoff+1-to-last-test-point",
                                  "predict was not given the exogenous rows from the step after the cutoff up to the last test point", fold=n_pred,
                                  got=(ev.get("X_index") or [])[:8], expected=list(range(c_lab + 1, last_lab + 1))[:8])
                    n_pred += 1
            ctx.check("leak", n_pred == len(splits), "evaluate:number-of-predictions", "number of predict calls differs from the number of folds",
                      predicts=n_pred, folds=len(splits))
            # training windows handed over are exactly the split's windows
            given = [ev for ev in spy_log if (ev["op"] == "fit" and not ev.get("in_update")) or ev["op"] == "update"]
            ok_w = len(given) == len(splits) and all(ev["y_index"] == list(y.index[tr]) for ev, (tr, _) in zip(given, splits))
            ctx.check("leak", ok_w, "evaluate:training-window-not-the-split-window", "data passed to fit/update are not exactly the split's training window",
                      n_given=len(given), n_splits=len(splits))
            if case["strategy"] == "update":
                ctx.check("leak", [ev["op"] for ev in given] == ["fit"] + ["update"] * (len(splits) - 1), "evaluate:update-strategy-call-sequence",
                          "update strategy must fit once and then update", ops=[ev["op"] for ev in given])
            else:
                ctx.check("leak", all(ev["op"] == "fit" for ev in given), "evaluate:refit-strategy-call-sequence", "refit strategy must fit every fold")
        else:
            ctx.seen("leak", 0)
        ctx.event(forecaster=zoo.describe(fspec) if not fspec[0].startswith("spy") else fspec[0], cv=case["cv"][0], folds=len(splits),
                  strategy=case["strategy"], metric=metric.name, scores=[float(v) for v in res[col]][:4], ref=[r["score"] for r in ref_rows][:4])
        fh = case["cv"][1]["fh"]
        if len(splits) >= 2 and (case["scoring"] in ("mape", "asym", "asym_fn") or case["strategy"] == "update" or case["withX"]
                                 or fh != list(range(1, len(fh) + 1)) or case["cv"][0] == "sliding"):
            ctx.nontrivial = True
    finally:
        spies.drop(lid)
