"""C19 - benchmark runs are exactly-once, resumable and store what was actually predicted.

Fault enumeration + offline checker over recorded event logs: a deterministic recording
estimator (majority class / mean) logs every fit/predict and raises on its k-th call; for every
crash point k of each explored configuration the run is crashed, resumed with overwriting
disabled, re-run (must do nothing) and re-run with overwriting enabled; files on disk, the
registry as seen through load_predictions and the call logs are compared with the expected
key set strategies x datasets x folds x parts and with an uninterrupted run."""
import hashlib
import logging
import os
import shutil

import numpy as np
import pandas as pd
from sklearn.base import BaseEstimator as SkBase
from sklearn.base import ClassifierMixin, RegressorMixin

PID = "C19"
LEVEL = "fault_enumeration"
RULE = ("case = (configuration: task type, #strategies, #datasets, CV scheme, store, save_fitted_strategies, predict_on_train) x (crash "
        "point k = index of the failing fit/predict call, or none) [x second crash point / option change in thorough]; all crash points "
        "1..K of every explored configuration are enumerated; non-trivial: the crash point lies strictly inside the run (some records "
        "complete, some missing); distinct = distinct case dict")
ANCHOR_FILES = ["sktime/benchmarking/*.py", "sktime/series_as_features/model_selection/_split.py"]
REQUIRED_REACH = ["orchestration.py:Orchestrator._iter", "orchestration.py:Orchestrator.fit_predict", "results.py:HDDResults.check_predictions_exist",
                  "results.py:HDDResults.save_predictions", "results.py:HDDResults.load_predictions", "results.py:HDDResults.save_fitted_strategy",
                  "base.py:BaseResults._append_key", "base.py:HDDBaseResults.save", "strategies.py:BaseSupervisedLearningStrategy._fit",
                  "_split.py:PresplitFilesCV.split", "_split.py:SingleSplit.split", "results.py:RAMResults.load_predictions"]
REQUIRED_MONITORS = ["features", "fresh-clone", "exactly-once", "stored==predicted", "load==stored", "resume.untouched", "resume.no-needless-work", "resume.completes",
                     "resume.final==uninterrupted", "idempotent", "overwrite.recomputes-all"]
NOT_COVERED = ["crashes inside a file write (torn files)", "Orchestrator.fit / predict (predict is not implemented)", "process-level crashes (the fault is an exception raised by the estimator)"]
ASSUMPTIONS = ["strategies are deterministic (majority class / mean), so re-computation is observable only through the call log and file hashes"]
JOBS = {"quick": 8, "thorough": 16}
LOGS = {}
STATE = {"n": 0, "k": None, "log": None}
logging.disable(logging.CRITICAL)


class Injected(RuntimeError):
    pass


FEATURES_SEEN = []      # (op, strategy tag, feature columns handed to the estimator[, columns it was fitted on]) of the current case


def _tick(tag, op, n, count=0):
    STATE["n"] += 1
    STATE["log"].append((tag, op, n, count))
    if STATE["k"] is not None and STATE["n"] == STATE["k"]:
        raise Injected("injected failure at call %d" % STATE["k"])


class SpyClf(ClassifierMixin, SkBase):
    def __init__(self, tag="a"):
        self.tag = tag

    def fit(self, X, y):
        self.n_fits_ = getattr(self, "n_fits_", 0) + 1
        _tick(self.tag, "fit", len(X), self.n_fits_)
        self.cols_ = [str(c) for c in getattr(X, "columns", [])]
        FEATURES_SEEN.append(("fit", self.tag, list(self.cols_)))
        vals, counts = np.unique(np.asarray(y), return_counts=True)
        self.classes_ = vals
        self.maj_ = vals[np.argmax(counts)]
        return self

    def predict(self, X):
        _tick(self.tag, "predict", len(X))
        FEATURES_SEEN.append(("predict", self.tag, [str(c) for c in getattr(X, "columns", [])], list(self.cols_)))
        return np.array([self.maj_] * len(X))


class SpyReg(RegressorMixin, SkBase):
    def __init__(self, tag="a"):
        self.tag = tag

    def fit(self, X, y):
        self.n_fits_ = getattr(self, "n_fits_", 0) + 1
        _tick(self.tag, "fit", len(X), self.n_fits_)
        self.cols_ = [str(c) for c in getattr(X, "columns", [])]
        FEATURES_SEEN.append(("fit", self.tag, list(self.cols_)))
        self.mean_ = float(np.mean(np.asarray(y, dtype=float)))
        return self

    def predict(self, X):
        _tick(self.tag, "predict", len(X))
        FEATURES_SEEN.append(("predict", self.tag, [str(c) for c in getattr(X, "columns", [])], list(self.cols_)))
        return np.full(len(X), round(self.mean_, 6))


class ShiftReg(RegressorMixin, SkBase):
    """mean of the training target plus a constant: the constant is a hyper-parameter a search can tune away"""
    def __init__(self, shift=0.0):
        self.shift = shift

    def fit(self, X, y):
        self.mean_ = float(np.mean(np.asarray(y, dtype=float)))
        return self

    def predict(self, X):
        return np.full(len(X), self.mean_ + self.shift)


class PickClf(ClassifierMixin, SkBase):
    """predicts one class of the training labels: the most frequent one or the last one in sorted order"""
    def __init__(self, pick="majority"):
        self.pick = pick

    def fit(self, X, y):
        vals, counts = np.unique(np.asarray(y), return_counts=True)
        self.classes_ = vals
        self.choice_ = vals[np.argmax(counts)] if self.pick == "majority" else vals[-1]
        return self

    def predict(self, X):
        return np.array([self.choice_] * len(X))


CONFIGS = []
for task in ("TSC", "TSR"):
    for cv in ("kfold2", "single", "presplit", "presplit+kfold2", "kfold3"):
        for ns, nd in ((2, 2), (1, 2), (2, 1), (3, 2)):
            for save in (True, False):
                for pot in (False, True):
                    CONFIGS.append({"task": task, "cv": cv, "ns": ns, "nd": nd, "save": save, "pot": pot})


def _total_calls(cfg):
    folds = {"kfold2": 2, "single": 1, "presplit": 1, "presplit+kfold2": 3, "kfold3": 3}[cfg["cv"]]
    return cfg["ns"] * cfg["nd"] * folds * (2 + (1 if cfg["pot"] else 0))


def cases(tier, seed):
    rng = np.random.default_rng([seed, 19])
    n_cfg = 14 if tier == "quick" else 120
    picks = [CONFIGS[int(i)] for i in rng.choice(len(CONFIGS), size=min(n_cfg, len(CONFIGS)), replace=False)]
    # always include the small reference configurations
    picks = [CONFIGS[0], {"task": "TSC", "cv": "kfold2", "ns": 2, "nd": 2, "save": True, "pot": True}] + picks
    cid = 0
    picks = [dict(c, feat="permuted") if (j % 3 == 2) else (dict(c, feat="unsorted-default") if (j % 3 == 1 and j > 1) else c) for j, c in enumerate(picks)]
    # strategies whose estimator is a hyper-parameter search / a scikit-learn pipeline around the estimator (both documented as accepted)
    for j, cfg in enumerate(picks):
        if j % 2 == 0 or tier == "thorough":
            for store in ("HDD", "RAM"):
                yield {"cfg": dict(cfg, feat=None), "store": store, "k": None, "id": 100000 + 2 * j + (store == "RAM"), "kind": "wrapped", "dseed": int(rng.integers(0, 2 ** 31))}
    # pre-split problems on disk: several problem directories that use the same problem name, visited one after the other in one process
    for j in range(3 if tier == "quick" else 40):
        for store in ("HDD", "RAM"):
            yield {"cfg": {"task": "TSC", "cv": ["presplit", "presplit+kfold2"][j % 2], "ns": 1, "nd": 2 + j % 2, "save": False, "pot": bool(j % 2)}, "store": store, "k": None,
                   "id": 200000 + 2 * j + (store == "RAM"), "kind": "on-disk", "dseed": int(rng.integers(0, 2 ** 31))}
    for cfg in picks:
        K = _total_calls(cfg)
        for store in ("HDD", "RAM"):        # every configuration also runs once against the in-memory store
            yield {"cfg": cfg, "store": store, "k": None, "id": cid, "dseed": int(rng.integers(0, 2 ** 31))}
            cid += 1
            if store == "RAM":
                continue
            for k in range(1, K + 1):
                yield {"cfg": cfg, "store": "HDD", "k": k, "id": cid, "dseed": int(rng.integers(0, 2 ** 31))}
                cid += 1
                if (tier == "thorough" and k % 3 == 0) or (tier == "quick" and k % 5 == 0):
                    yield {"cfg": cfg, "store": "HDD", "k": k, "k2": int(rng.integers(1, max(2, K - k + 1))), "id": cid, "dseed": int(rng.integers(0, 2 ** 31))}
                    cid += 1
                    for sw in (["pot"] if not cfg["pot"] else []) + (["save"] if not cfg["save"] else []):
                        yield {"cfg": cfg, "store": "HDD", "k": k, "switch": sw, "id": cid, "dseed": int(rng.integers(0, 2 ** 31))}
                        cid += 1


# ---------------------------------------------------------------------------------
def _datasets(cfg, dseed):
    from sktime.benchmarking.data import RAMDataset
    out = []
    for d in range(cfg["nd"]):
        rng = np.random.default_rng([dseed, d])
        n = 12 + d
        cells = [pd.Series(rng.normal(0, 1, 6)) for _ in range(n)]
        if cfg["task"] == "TSC":
            y = np.array(["a", "b", "c"])[rng.integers(0, 3, size=n)]
            y[:3] = ["a", "b", "a"]
            if (dseed + d) % 3 == 1:
                y = np.array([{"a": 3, "b": 10, "c": -2}[v] for v in y], dtype=np.int64)      # integer class labels
            elif (dseed + d) % 3 == 2:
                y = np.array([{"a": "10", "b": "2", "c": "33"}[v] for v in y], dtype=object)    # numeric strings kept as objects
        else:
            y = np.round(rng.normal(5, 2, size=n), 3)
            if (dseed + d) % 3 == 1:
                y = np.round(y).astype(np.int64)      # counts: an integer-typed target, predictions stay real-valued
        df = pd.DataFrame({"dim_0": cells, "target": y})
        if cfg.get("feat") == "unsorted-default":
            # default feature selection (all columns but the target) on a frame whose column names are not in sorted order
            df = pd.DataFrame({"zeta": cells, "alpha": [pd.Series(rng.normal(3, 1, 6)) for _ in range(n)], "mid": [pd.Series(rng.normal(9, 1, 6)) for _ in range(n)], "target": y})
        if cfg.get("feat") == "permuted":
            df = pd.DataFrame({"dim_0": cells, "dim_1": [pd.Series(rng.normal(3, 1, 6)) for _ in range(n)], "extra": [pd.Series(rng.normal(9, 1, 6)) for _ in range(n)], "target": y})
        if cfg["cv"].startswith("presplit"):
            # the predefined split is carried by the row labels, in any arrangement: train rows first, interleaved, or test rows first
            lab = ["train"] * (n // 2) + ["test"] * (n - n // 2)
            arr_ = (dseed + d) % 3
            if arr_ == 1:
                lab = [("train" if i % 2 == 0 else "test") for i in range(n)]
            elif arr_ == 2:
                lab = lab[::-1]
            df.index = lab
        if not cfg["cv"].startswith("presplit") and (dseed + d) % 4 == 3:
            # instance labels that are not in sorted order (a shuffled frame): instances are addressed by position, whatever their labels
            df.index = [int(v) for v in np.random.default_rng([dseed, d, 5]).permutation(n) * 3 + 1]
        ds_ = RAMDataset(df.copy(), "data%d" % d)
        ds_.frame0 = df               # the frame as the harness made it: expectations are computed from this one, not from what load() hands back
        out.append(ds_)
    return out


def _cv(cfg):
    from sklearn.model_selection import KFold
    from sktime.series_as_features.model_selection import PresplitFilesCV, SingleSplit
    c = cfg["cv"]
    if c == "kfold2":
        return KFold(n_splits=2)
    if c == "kfold3":
        return KFold(n_splits=3, shuffle=True, random_state=1)
    if c == "single":
        return SingleSplit(random_state=3)
    if c == "presplit":
        return PresplitFilesCV()
    return PresplitFilesCV(cv=KFold(n_splits=2))


def _folds(cfg, df):
    """the folds the configured CV scheme documents, computed without the repository's splitters"""
    from sklearn.model_selection import KFold, train_test_split
    n = len(df)
    idx = np.arange(n)
    c = cfg["cv"]
    if c == "kfold2":
        return list(KFold(n_splits=2).split(idx))
    if c == "kfold3":
        return list(KFold(n_splits=3, shuffle=True, random_state=1).split(idx))
    if c == "single":
        tr, te = train_test_split(idx, test_size=0.25, random_state=3, shuffle=True)
        return [(tr, te)]
    pre = [(idx[np.asarray(df.index) == "train"], idx[np.asarray(df.index) == "test"])]
    if c == "presplit":
        return pre
    return pre + list(KFold(n_splits=2).split(idx))


def _run(cfg, dseed, path, k=None, overwrite=False, pot=None, save=None, into=None):
    """one Orchestrator.fit_predict run with a fresh results object; returns (results, crashed, call log)"""
    from sktime.benchmarking.orchestration import Orchestrator
    from sktime.benchmarking.results import HDDResults, RAMResults
    from sktime.benchmarking.strategies import TSCStrategy, TSRStrategy
    from sktime.benchmarking.tasks import TSCTask, TSRTask
    ds = _datasets(cfg, dseed)
    T, S, E = (TSCTask, TSCStrategy, SpyClf) if cfg["task"] == "TSC" else (TSRTask, TSRStrategy, SpyReg)
    # explicit feature lists name the columns in the task's own order (not the frame's) and may leave columns out
    tasks = [T(target="target", features=["dim_1", "dim_0"]) if cfg.get("feat") == "permuted" else T(target="target") for _ in ds]
    strategies = [S(E(tag="s%d" % i), name="strat%d" % i) for i in range(cfg["ns"])]
    res = into if into is not None else (HDDResults(path=path) if path else RAMResults())
    orch = Orchestrator(tasks, ds, strategies, _cv(cfg), res)
    STATE.update(n=0, k=k, log=[])
    pot = cfg["pot"] if pot is None else pot
    save = cfg["save"] if save is None else save
    crashed = False
    try:
        orch.fit_predict(overwrite_predictions=overwrite, predict_on_train=pot, save_fitted_strategies=save if path else False,
                         overwrite_fitted_strategies=bool(overwrite and save and path))
    except Injected:
        crashed = True
    finally:
        STATE["k"] = None
    return res, crashed, list(STATE["log"]), ds


def _snapshot(path):
    out = {}
    for r, _, files in os.walk(path):
        for fn in files:
            p = os.path.join(r, fn)
            out[os.path.relpath(p, path)] = hashlib.sha1(open(p, "rb").read()).hexdigest()
    return out


def _expected_keys(cfg, pot):
    folds = {"kfold2": 2, "single": 1, "presplit": 1, "presplit+kfold2": 3, "kfold3": 3}[cfg["cv"]]
    return [("strat%d" % s, "data%d" % d, f, part) for s in range(cfg["ns"]) for d in range(cfg["nd"]) for f in range(folds)
            for part in (("train", "test") if pot else ("test",))]


def _csv_name(key):
    s, d, f, part = key
    return os.path.join(s, d, "%s_%s_%d.csv" % (s, part, f))


def _pickle_name(s, d, f):
    return os.path.join(s, d, "%s_train_%d.pickle" % (s, f))


def _content(path, rel):
    df = pd.read_csv(os.path.join(path, rel))
    return df[["index", "y_true", "y_pred"]].astype(str).values.tolist()


def _check_complete_store(ctx, cfg, path, res, ds, pot, save, where):
    """conservation / exactly-once between expected keys, files and registry; stored == predicted by an independent clone"""
    keys = _expected_keys(cfg, pot)
    snap = _snapshot(path)
    csvs = sorted(k for k in snap if k.endswith(".csv"))
    exp_csv = sorted(_csv_name(k) for k in keys)
    ctx.check("exactly-once", csvs == exp_csv, "store:records-missing-or-extra", "prediction records on disk are not exactly one per strategy, dataset, fold and part (%s)" % where,
              missing=sorted(set(exp_csv) - set(csvs))[:5], extra=sorted(set(csvs) - set(exp_csv))[:5])
    if save:
        pk = sorted(k for k in snap if k.endswith(".pickle") and not k.startswith("results"))
        exp_pk = sorted(set(_pickle_name(s, d, f) for s, d, f, _ in keys))
        ctx.check("exactly-once", pk == exp_pk, "store:fitted-strategies-missing-or-extra", "saved fitted strategies are not exactly one per strategy, dataset and fold (%s)" % where,
                  missing=sorted(set(exp_pk) - set(pk))[:5], extra=sorted(set(pk) - set(exp_pk))[:5])
    # stored content equals what an independent estimator predicts on that fold
    data = {d.name: getattr(d, "frame0", None) if getattr(d, "frame0", None) is not None else d.load() for d in ds}
    for dname, df in data.items():
        y = df["target"]
        for f, (tr, te) in enumerate(_folds(cfg, df)):
            ytr = np.asarray(y.iloc[tr])
            if cfg["task"] == "TSC":
                vals, counts = np.unique(ytr, return_counts=True)
                pred = str(vals[np.argmax(counts)])
            else:
                pred = float(round(float(np.mean(ytr.astype(float))), 6))
            for s in range(cfg["ns"]):
                for part, idx in (("test", te),) + ((("train", tr),) if pot else ()):
                    rel = _csv_name(("strat%d" % s, dname, f, part))
                    if rel not in snap:
                        continue
                    got = pd.read_csv(os.path.join(path, rel))
                    ok = list(got["index"]) == [int(i) for i in idx]
                    if cfg["task"] == "TSC":
                        ok = ok and [str(v) for v in got["y_true"]] == [str(v) for v in np.asarray(y.iloc[idx])] and all(str(v) == pred for v in got["y_pred"])
                    else:
                        ok = ok and np.allclose(got["y_true"].values, np.asarray(y.iloc[idx], dtype=float)) and np.allclose(got["y_pred"].values, pred)
                    ctx.check("stored==predicted", ok, "store:record-differs-from-independent-fit-predict", "stored index / y_true / y_pred differ from fitting a clone on the "
                              "fold's training instances and predicting the recorded instances (%s)" % where, record=rel, index=list(got["index"])[:6], expected_index=[int(i) for i in idx][:6])
    # records read back through the registry
    if res is not None:
        folds = sorted(set(k[2] for k in keys))
        for f in folds:
            for part in (("train", "test") if pot else ("test",)):
                try:
                    loaded = list(res.load_predictions(f, part))
                except Exception as e:  # noqa
                    ctx.check("load==stored", False, "load:exception", "load_predictions raised %r (%s)" % (e, where))
                    continue
                pairs = sorted((p.strategy_name, p.dataset_name) for p in loaded)
                exp_pairs = sorted((k[0], k[1]) for k in keys if k[2] == f and k[3] == part)
                ctx.check("load==stored", pairs == exp_pairs, "load:registry-does-not-enumerate-every-stored-record",
                          "load_predictions does not enumerate every stored record (%s)" % where, got=pairs[:6], expected=exp_pairs[:6], fold=f, part=part)
                for p in loaded:
                    rel = _csv_name((p.strategy_name, p.dataset_name, f, part))
                    if rel in snap:
                        got = pd.read_csv(os.path.join(path, rel))
                        ctx.check("load==stored", [str(v) for v in p.index] == [str(v) for v in got["index"]] and [str(v) for v in p.y_pred] == [str(v) for v in got["y_pred"]]
                                  and [str(v) for v in p.y_true] == [str(v) for v in got["y_true"]], "load:record-differs-from-file", "record read back differs from what is stored (%s)" % where, record=rel)
    return snap


def run_case(case, ctx):
    del FEATURES_SEEN[:]
    try:
        return _run_case(case, ctx)
    finally:
        # the estimator is handed the task's feature columns, in the task's order, at fit and at every predict
        want = {"permuted": ["dim_1", "dim_0"], "unsorted-default": ["zeta", "alpha", "mid"]}.get(case["cfg"].get("feat"), ["dim_0"])
        for ev in FEATURES_SEEN:
            ctx.check("features", ev[2] == want and (ev[0] == "fit" or ev[2] == ev[3]), "strategy:%s-given-other-feature-columns-than-the-task-lists" % ev[0],
                      "the estimator was not handed exactly the task's feature columns in the task's order", op=ev[0], got=ev[2], expected=want, fitted_on=ev[3] if ev[0] == "predict" else None)
        if case["cfg"].get("feat"):
            ctx.tag("task:features-" + case["cfg"]["feat"])


def _wrapped(case, ctx, base):
    """the records of strategies built around a search / pipeline equal fitting a clone of THAT object (the one handed to the strategy) on the
    fold's training instances"""
    from sklearn.base import clone
    from sklearn.model_selection import GridSearchCV, RandomizedSearchCV
    from sklearn.pipeline import Pipeline
    from sklearn.preprocessing import FunctionTransformer
    from sktime.benchmarking.orchestration import Orchestrator
    from sktime.benchmarking.results import HDDResults, RAMResults
    from sktime.benchmarking.strategies import TSCStrategy, TSRStrategy
    from sktime.benchmarking.tasks import TSCTask, TSRTask
    cfg = case["cfg"]
    ds = _datasets(cfg, case["dseed"])
    clf = cfg["task"] == "TSC"
    T, S = (TSCTask, TSCStrategy) if clf else (TSRTask, TSRStrategy)
    # the inner estimator is configured with the value the search will (nearly always) reject
    inner = (lambda: PickClf(pick="last")) if clf else (lambda: ShiftReg(shift=50.0))
    grid = {"pick": ["majority", "last"]} if clf else {"shift": [0.0, 50.0]}
    user = {"grid": GridSearchCV(inner(), grid, cv=2), "rand": RandomizedSearchCV(inner(), grid, n_iter=2, cv=2, random_state=0),
            "pipe": Pipeline([("identity", FunctionTransformer(validate=False)), ("est", inner())]), "plain": inner()}
    try:
        strategies = [S(est, name=name) for name, est in user.items()]
    except Exception as e:  # noqa
        ctx.violation("strategy:documented-estimator-kind-refused:" + type(e).__name__, "a strategy refused a search / pipeline around a compatible estimator: %r" % e)
        return
    path = os.path.join(base, "wrapped") if case["store"] == "HDD" else None
    if path:
        os.makedirs(path)
    res = HDDResults(path=path) if path else RAMResults()
    orch = Orchestrator([T(target="target") for _ in ds], ds, strategies, _cv(cfg), res)
    ok, _ = ctx.call("run:wrapped-estimators:exception", orch.fit_predict, overwrite_predictions=False, predict_on_train=cfg["pot"], save_fitted_strategies=False)
    if not ok:
        return
    differs_from_inner = 0
    for d in ds:
        df = getattr(d, "frame0", None) if getattr(d, "frame0", None) is not None else d.load()
        Xall, yall = df[[c for c in df.columns if c != "target"]], np.asarray(df["target"])
        for f, (tr, te) in enumerate(_folds(cfg, df)):
            expected = {}
            for name, est in user.items():
                m = clone(est).fit(Xall.iloc[tr], yall[tr])
                expected[name] = {"test": m.predict(Xall.iloc[te]), "train": m.predict(Xall.iloc[tr])}
            bare = clone(inner()).fit(Xall.iloc[tr], yall[tr]).predict(Xall.iloc[te])
            differs_from_inner += int(any(str(a) != str(b) for a, b in zip(expected["grid"]["test"], bare)))
            for part, idx in (("test", te),) + ((("train", tr),) if cfg["pot"] else ()):
                loaded = {p.strategy_name: p for p in res.load_predictions(f, part) if p.dataset_name == d.name}
                for name in user:
                    w = loaded.get(name)
                    ctx.check("exactly-once", w is not None, "store:wrapped:record-missing", "no record for a strategy / dataset / fold / part", strategy=name, fold=f, part=part)
                    if w is None:
                        continue
                    exp = expected[name][part]
                    same = list(w.index) == [int(i) for i in idx] and len(w.y_pred) == len(exp) and all(
                        (str(a) == str(b)) if clf else abs(float(a) - float(b)) <= 1e-9 * (1 + abs(float(b))) for a, b in zip(np.asarray(w.y_pred), exp))
                    ctx.check("stored==predicted", same, "store:wrapped-estimator:record-differs-from-fitting-a-clone-of-the-given-estimator:" + name,
                              "the record of a strategy built around a %s differs from fitting a clone of that object on the fold's training instances" % type(user[name]).__name__,
                              strategy=name, dataset=d.name, fold=f, part=part, got=[str(v) for v in np.asarray(w.y_pred)[:4]], expected=[str(v) for v in exp[:4]])
    ctx.tag("wrapped-estimators")
    ctx.tag("wrapped:folds-where-the-search-differs-from-its-inner-estimator", differs_from_inner)
    for m_ in ("fresh-clone", "load==stored", "idempotent", "overwrite.recomputes-all", "resume.untouched", "resume.no-needless-work", "resume.completes", "resume.final==uninterrupted"):
        ctx.seen(m_, 0)
    ctx.event(kind="wrapped", cfg=cfg, store=case["store"], differs_from_inner=differs_from_inner)
    ctx.nontrivial = differs_from_inner > 0


def _on_disk(case, ctx, base):
    """problem directories with TRAIN / TEST files, read through the on-disk dataset class; several directories use the same problem name and
    are run one after the other in this process: every run's records are those of ITS directory's files"""
    from sktime.benchmarking.data import UEADataset
    from sktime.benchmarking.orchestration import Orchestrator
    from sktime.benchmarking.results import HDDResults, RAMResults
    from sktime.benchmarking.strategies import TSCStrategy
    from sktime.benchmarking.tasks import TSCTask
    cfg = case["cfg"]
    rng = np.random.default_rng([case["dseed"], 1919])
    problems = []
    for d in range(cfg["nd"]):
        ntr, nte, nt = int(rng.integers(5, 11)), int(rng.integers(4, 9)), 6
        labs = [["a", "b"], ["x", "y", "z"], ["p", "q"]][d % 3]
        rows = [([round(float(v), 4) for v in rng.normal(d, 1, nt)], labs[int(rng.integers(0, len(labs)))]) for _ in range(ntr + nte)]
        for i, l in enumerate(labs):            # every label occurs in the training part
            rows[i] = (rows[i][0], l)
        pdir = os.path.join(base, "dir%d" % d)
        os.makedirs(os.path.join(pdir, "Prob"))
        for part, sel in (("TRAIN", rows[:ntr]), ("TEST", rows[ntr:])):
            with open(os.path.join(pdir, "Prob", "Prob_%s.ts" % part), "w") as fo:
                fo.write("@problemName Prob\n@timeStamps false\n@missing false\n@univariate true\n@equalLength true\n@seriesLength %d\n@classLabel true %s\n@data\n" % (nt, " ".join(labs)))
                fo.write("\n".join(",".join(repr(v) for v in vals) + ":" + lab for vals, lab in sel) + "\n")
        problems.append((pdir, rows, ntr))
    for d, (pdir, rows, ntr) in enumerate(problems):
        ok, ds = ctx.call("on-disk:dataset-exception", UEADataset, path=pdir, name="Prob")
        if not ok:
            return
        path = os.path.join(base, "res%d" % d) if case["store"] == "HDD" else None
        if path:
            os.makedirs(path)
        res = HDDResults(path=path) if path else RAMResults()
        orch = Orchestrator([TSCTask(target="target")], [ds], [TSCStrategy(PickClf(pick="majority"), name="maj")], _cv(cfg), res)
        ok, _ = ctx.call("on-disk:run-exception", orch.fit_predict, overwrite_predictions=False, predict_on_train=cfg["pot"], save_fitted_strategies=False)
        if not ok:
            return
        n = len(rows)
        labels = np.array([l for _, l in rows])
        frame = pd.DataFrame({"dim_0": [None] * n}, index=["train"] * ntr + ["test"] * (n - ntr))
        for f, (tr, te) in enumerate(_folds(cfg, frame)):
            vals, counts = np.unique(labels[tr], return_counts=True)
            maj = vals[np.argmax(counts)]
            for part, idx in (("test", te),) + ((("train", tr),) if cfg["pot"] else ()):
                loaded = [p for p in res.load_predictions(f, part)]
                ctx.check("exactly-once", len(loaded) == 1, "on-disk:records-missing-or-extra", "not exactly one record for the strategy / problem / fold / part", fold=f, part=part, got=len(loaded))
                if len(loaded) != 1:
                    continue
                w = loaded[0]
                good = [int(i) for i in w.index] == [int(i) for i in idx] and [str(v) for v in w.y_true] == [str(v) for v in labels[idx]] and all(str(v) == str(maj) for v in w.y_pred)
                ctx.check("stored==predicted", good, "on-disk:record-not-that-of-the-directory-s-files",
                          "the record of a run over an on-disk problem is not index / true labels / predictions of the files in THAT problem directory", directory=d, fold=f, part=part,
                          got_index=[int(i) for i in w.index][:8], expected_index=[int(i) for i in idx][:8], got_true=[str(v) for v in w.y_true][:6], expected_true=[str(v) for v in labels[idx]][:6])
    ctx.tag("on-disk-problems:same-name-in-%d-directories" % len(problems))
    for m_ in ("fresh-clone", "load==stored", "idempotent", "overwrite.recomputes-all", "resume.untouched", "resume.no-needless-work", "resume.completes", "resume.final==uninterrupted"):
        ctx.seen(m_, 0)
    ctx.event(kind="on-disk", cfg=cfg, store=case["store"], directories=len(problems))
    ctx.nontrivial = True


def _run_case(case, ctx):
    cfg, k = case["cfg"], case["k"]
    base = os.path.join(os.environ.get("VMON_HOME", "/verif"), ".cache", "c19", "%d-%d" % (os.getpid(), case["id"]))
    shutil.rmtree(base, ignore_errors=True)
    os.makedirs(base)
    try:
        if case.get("kind") == "wrapped":
            return _wrapped(case, ctx, base)
        if case.get("kind") == "on-disk":
            return _on_disk(case, ctx, base)
        if case["store"] == "RAM":
            return _ram(case, ctx)
        ref_path = os.path.join(base, "ref")
        os.makedirs(ref_path)
        pot2 = cfg["pot"] or case.get("switch") == "pot"
        save2 = cfg["save"] or case.get("switch") == "save"
        # uninterrupted reference run (same final options)
        rres, crashed, rlog, ds = _run(cfg, case["dseed"], ref_path, pot=pot2, save=save2)
        K = len(rlog)
        ctx.check("exactly-once", not crashed, "run:uninterrupted-run-crashed", "uninterrupted run raised")
        ref_snap = _check_complete_store(ctx, cfg, ref_path, rres, ds, pot2, save2, "uninterrupted run")
        exp_fits = sorted((s, d, f) for s, d, f, _ in set((a, b, c, "x") for a, b, c, _ in _expected_keys(cfg, pot2)))
        ctx.check("fresh-clone", all(e[3] == 1 for e in rlog if e[1] == "fit"), "run:estimator-instance-fitted-more-than-once",
                  "a strategy's estimator instance was fitted on several folds instead of a fresh clone per fold", counts=sorted(set(e[3] for e in rlog if e[1] == "fit")))
        ctx.check("exactly-once", sorted(e[0] for e in rlog if e[1] == "fit") == sorted("s" + key[0][5:] for key in exp_fits),
                  "run:fit-count", "uninterrupted run does not fit each strategy once per dataset and fold", fits=len([e for e in rlog if e[1] == "fit"]), expected=len(exp_fits))
        if k is None:
            # idempotence and overwrite on the complete store
            r2, c2, log2, ds_2 = _run(cfg, case["dseed"], ref_path, pot=pot2, save=save2)
            # every completed run merges its registry into the store's master file: still exactly one record per key when read back
            _check_complete_store(ctx, cfg, ref_path, r2, ds_2, pot2, save2, "second, identical run on the complete store")
            ctx.check("idempotent", not c2 and len(log2) == 0 and {a: b for a, b in _snapshot(ref_path).items() if a != "results.pickle"} == {a: b for a, b in ref_snap.items() if a != "results.pickle"},
                      "rerun:identical-run-does-work-or-changes-store", "a further identical run performed fits/predicts or modified the store", calls=len(log2))
            r3, c3, log3, ds_3 = _run(cfg, case["dseed"], ref_path, overwrite=True, pot=pot2, save=save2)
            _check_complete_store(ctx, cfg, ref_path, r3, ds_3, pot2, save2, "third run, overwriting, on the complete store")
            ctx.check("overwrite.recomputes-all", not c3 and len(log3) == K, "overwrite:not-every-record-recomputed", "a run with overwriting enabled did not recompute every record",
                      calls=len(log3), expected=K)
            after = _snapshot(ref_path)
            changed = [a for a in after if a.endswith(".csv") and after[a] != ref_snap.get(a)]
            ctx.check("overwrite.recomputes-all", len(changed) == len([a for a in after if a.endswith(".csv")]), "overwrite:records-not-rewritten",
                      "records were not rewritten although overwriting was enabled", rewritten=len(changed))
            for m in ("resume.untouched", "resume.no-needless-work", "resume.completes", "resume.final==uninterrupted"):
                ctx.seen(m, 0)
            ctx.event(cfg=cfg, store="HDD", crash_point=None, total_calls=K, files=len(ref_snap))
            ctx.nontrivial = True
            return
        # ---- crash at call k -------------------------------------------------------------------------------
        path = os.path.join(base, "run")
        os.makedirs(path)
        _, crashed, log1, _ = _run(cfg, case["dseed"], path, k=k)
        ctx.check("resume.completes", crashed == (k <= _total_calls(cfg)), "crash:injection-did-not-fire", "fault injection did not fire", k=k)
        snap1 = _snapshot(path)
        if case.get("k2"):
            _, _, _, _ = _run(cfg, case["dseed"], path, k=case["k2"])
            snapx = _snapshot(path)
            ctx.check("resume.untouched", all(snapx.get(a) == h for a, h in snap1.items() if a != "results.pickle"), "resume:second-crash-run-modified-completed-records",
                      "a second interrupted run modified completed records")
            snap1 = snapx
        # which (strategy, dataset, fold) are complete after the crash (under the options of the resume run)
        keys = _expected_keys(cfg, pot2)
        triples = sorted(set((s, d, f) for s, d, f, _ in keys))

        def complete(t):
            s, d, f = t
            okc = all(_csv_name((s, d, f, p)) in snap1 for p in (("train", "test") if pot2 else ("test",)))
            return okc and (not save2 or _pickle_name(s, d, f) in snap1)
        done = [t for t in triples if complete(t)]
        res2, crashed2, log2, ds2 = _run(cfg, case["dseed"], path, pot=pot2, save=save2)
        ctx.check("resume.completes", not crashed2, "resume:run-raised", "resumed run raised")
        snap2 = _snapshot(path)
        ctx.check("resume.untouched", all(snap2.get(a) == h for a, h in snap1.items() if a != "results.pickle" and (a.endswith(".csv") or a.endswith(".pickle"))),
                  "resume:completed-records-or-strategies-modified", "resumed run modified completed records or saved fitted strategies",
                  modified=[a for a, h in snap1.items() if a != "results.pickle" and snap2.get(a) != h][:5])
        fits2 = [e for e in log2 if e[1] == "fit"]
        ctx.check("resume.no-needless-work", len(fits2) == len(triples) - len(done), "resume:recomputed-complete-or-skipped-missing",
                  "resumed run did not fit exactly the strategy/dataset/fold combinations with missing records", fits=len(fits2), expected=len(triples) - len(done),
                  complete_after_crash=len(done), total=len(triples))
        final = _check_complete_store(ctx, cfg, path, res2, ds2, pot2, save2, "after crash at call %d and resume" % k)
        same = sorted(a for a in final if a != "results.pickle") == sorted(a for a in ref_snap if a != "results.pickle")
        same = same and all(_content(path, a) == _content(ref_path, a) for a in final if a.endswith(".csv") and a in ref_snap)
        ctx.check("resume.final==uninterrupted", same, "resume:final-store-differs-from-uninterrupted-run", "final store after crash + resume differs from an uninterrupted run",
                  only_resumed=sorted(set(final) - set(ref_snap))[:5], only_reference=sorted(set(ref_snap) - set(final))[:5])
        r3, c3, log3, ds_3 = _run(cfg, case["dseed"], path, pot=pot2, save=save2)
        _check_complete_store(ctx, cfg, path, r3, ds_3, pot2, save2, "identical run after crash at call %d and resume" % k)
        r4, c4, _, ds_4 = _run(cfg, case["dseed"], path, pot=pot2, save=save2)
        if not c4:
            _check_complete_store(ctx, cfg, path, r4, ds_4, pot2, save2, "second identical run after the resume")
        ctx.check("idempotent", not c3 and len(log3) == 0, "rerun:identical-run-after-resume-does-work", "a further identical run after the resume performed fits/predicts", calls=len(log3))
        ctx.seen("overwrite.recomputes-all", 0)
        ctx.event(cfg=cfg, crash_point=k, total_calls=K, complete_after_crash=len(done), of=len(triples), resume_calls=len(log2), second_crash=case.get("k2"), switch=case.get("switch"))
        ctx.nontrivial = 0 < len(done) < len(triples) or (0 < len([a for a in snap1 if a.endswith(".csv")]) < len(keys))
    finally:
        shutil.rmtree(base, ignore_errors=True)


def _ram(case, ctx):
    cfg = case["cfg"]
    res, crashed, log, ds = _run(cfg, case["dseed"], None)
    keys = _expected_keys(cfg, cfg["pot"])
    got = sorted(res.results.keys())
    exp = sorted("%s_%s_%s_%d" % (s, d, p, f) for s, d, f, p in keys)
    ctx.check("exactly-once", got == exp and not crashed, "store:ram:records-missing-or-extra", "in-memory store does not hold exactly one record per key", got=got[:5], expected=exp[:5])
    for d in ds:
        df = getattr(d, "frame0", None) if getattr(d, "frame0", None) is not None else d.load()
        for f, (tr, te) in enumerate(_folds(cfg, df)):
            for s in range(cfg["ns"]):
                w = res.results.get("strat%d_%s_test_%d" % (s, d.name, f))
                if w is None:
                    continue
                ytr = np.asarray(df["target"].iloc[tr])
                if cfg["task"] == "TSC":
                    vals, counts = np.unique(ytr, return_counts=True)
                    okp = all(str(v) == str(vals[np.argmax(counts)]) for v in w.y_pred)
                else:
                    okp = np.allclose(np.asarray(w.y_pred, dtype=float), round(float(np.mean(ytr.astype(float))), 6))
                ctx.check("stored==predicted", list(w.index) == list(te) and okp and [str(v) for v in w.y_true] == [str(v) for v in np.asarray(df["target"].iloc[te])],
                          "store:ram:record-differs-from-independent-fit-predict", "in-memory record differs from an independent fit/predict on that fold")
    for f in sorted(set(k[2] for k in keys)):
        for part in (("train", "test") if cfg["pot"] else ("test",)):
            loaded = list(res.load_predictions(f, part))
            ctx.check("load==stored", sorted((p.strategy_name, p.dataset_name) for p in loaded) == sorted((k[0], k[1]) for k in keys if k[2] == f and k[3] == part)
                      and all(p is res.results["%s_%s_%s_%d" % (p.strategy_name, p.dataset_name, part, f)] for p in loaded),
                      "load:ram:not-every-record-enumerated", "in-memory load_predictions does not enumerate every stored record")
    # a second in-memory store in the same process (another configuration, same strategy / data set names): it holds exactly its own records,
    # and the first store still holds exactly what its run produced
    first_ids = {k: id(v) for k, v in res.results.items()}
    cfg2 = dict(cfg, cv="single" if cfg["cv"] != "single" else "kfold3", pot=not cfg["pot"])
    res2, crashed2, _, _ = _run(cfg2, case["dseed"] + 1, None)
    exp2 = sorted("%s_%s_%s_%d" % (s_, d_, p_, f_) for s_, d_, f_, p_ in _expected_keys(cfg2, cfg2["pot"]))
    ctx.check("exactly-once", sorted(res2.results.keys()) == exp2 and not crashed2, "store:ram:second-store-holds-foreign-records",
              "a second in-memory store of the same process does not hold exactly the records of its own run", got=sorted(res2.results.keys())[:6], expected=exp2[:6])
    ctx.check("load==stored", sorted(res.results.keys()) == exp and all(id(res.results[k]) == first_ids[k] for k in exp if k in res.results), "store:ram:first-store-changed-by-a-later-run",
              "the records of an in-memory store changed when another store was filled", got=sorted(res.results.keys())[:6], expected=exp[:6])
    ctx.check("fresh-clone", all(e[3] == 1 for e in log if e[1] == "fit"), "run:estimator-instance-fitted-more-than-once", "estimator instance reused across folds")
    for m in ("resume.untouched", "resume.no-needless-work", "resume.completes", "resume.final==uninterrupted", "idempotent", "overwrite.recomputes-all"):
        ctx.seen(m, 0)
    # a second run INTO THE SAME store, with overwriting switched on, over other data under the same data set names: the store then holds the
    # records of the second run
    if case["dseed"] % 2 == 0:
        res2, crashed2, _, ds2 = _run(cfg, case["dseed"] + 1, None, overwrite=True, into=res)
        ctx.check("overwrite.recomputes-all", not crashed2 and res2 is res, "store:ram:second-run-crashed", "a second run into the same in-memory store raised")
        stale = 0
        for d in ds2:
            df = getattr(d, "frame0", None) if getattr(d, "frame0", None) is not None else d.load()
            for f, (tr, te) in enumerate(_folds(cfg, df)):
                for s_ in range(cfg["ns"]):
                    w = res.results.get("strat%d_%s_test_%d" % (s_, d.name, f))
                    if w is None:
                        continue
                    ytr = np.asarray(df["target"].iloc[tr])
                    if cfg["task"] == "TSC":
                        vals, counts = np.unique(ytr, return_counts=True)
                        okp = all(str(v) == str(vals[np.argmax(counts)]) for v in w.y_pred)
                    else:
                        okp = np.allclose(np.asarray(w.y_pred, dtype=float), round(float(np.mean(ytr.astype(float))), 6))
                    good = list(w.index) == list(te) and okp and [str(v) for v in w.y_true] == [str(v) for v in np.asarray(df["target"].iloc[te])]
                    stale += int(not good)
                    ctx.check("overwrite.recomputes-all", good, "store:ram:second-run-with-overwriting-leaves-the-first-run-s-record",
                              "after a second run with overwriting enabled the in-memory store does not hold the second run's record", record="strat%d_%s_test_%d" % (s_, d.name, f))
        ctx.tag("ram:second-run-into-the-same-store")
    ctx.event(cfg=cfg, store="RAM", records=len(got))
    ctx.nontrivial = True
