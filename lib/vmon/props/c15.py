"""C15 - panel data container conversions are lossless and mutually consistent.

Unique-id cells v = 1e6*(i+1) + 1e3*(j+1) + t make every misplacement explicit: each
representation is decoded by the harness (from its documented layout) to the canonical
3-d array, and every conversion path of length <= 3 must agree with the expected array."""
import itertools

import numpy as np
import pandas as pd

PID = "C15"
LEVEL = "exploration"
RULE = ("case = (n_instances, n_columns, n_timepoints, column naming scheme, cell type, instance labels, value kind); inside a "
        "case every path of <= 3 conversions through the conversion graph (nested-Series, nested-array, 3d numpy, multi-index, "
        "long, 2d table) is executed and decoded; non-trivial: n_instances >= 2 and n_columns >= 2 and n_timepoints >= 3 "
        "(misplacements along every axis are distinguishable); distinct = distinct case dict")
ANCHOR_FILES = ["sktime/utils/data_processing.py", "sktime/utils/validation/panel.py"]
REQUIRED_REACH = ["data_processing.py:from_nested_to_3d_numpy", "data_processing.py:from_3d_numpy_to_nested",
                  "data_processing.py:from_3d_numpy_to_multi_index", "data_processing.py:from_multi_index_to_3d_numpy",
                  "data_processing.py:from_nested_to_multi_index", "data_processing.py:from_multi_index_to_nested",
                  "data_processing.py:from_nested_to_long", "data_processing.py:from_long_to_nested",
                  "data_processing.py:from_nested_to_2d_array", "data_processing.py:from_3d_numpy_to_2d_array",
                  "data_processing.py:from_2d_array_to_nested", "data_processing.py:is_nested_dataframe", "panel.py:check_X"]
REQUIRED_MONITORS = ["layout", "path.values", "path.names", "predicate", "check_X"]
NOT_COVERED = ["unequal-length panels (outside the statement)", "paths longer than 3 conversions",
               "instance labels that are not in sorted order on paths through the long table (it is keyed by identifiers; pivoting orders them like variables)"]
ASSUMPTIONS = ["decoders in c15._decode follow each representation's documented layout"]
JOBS = {"quick": 4, "thorough": 16}
EXHAUSTIVE = {"quick": True, "thorough": False}


def cases(tier, seed):
    for ni, nc, nt in itertools.product([1, 2, 3, 5], [1, 2, 3], [2, 3, 10]):
        for names in ("default", "str", "int"):
            for cells in ("S", "A"):
                yield {"ni": ni, "nc": nc, "nt": nt, "names": names, "cells": cells, "labels": "default", "values": "id", "vseed": 0}
                if names == "default" and nt == 3:
                    yield {"ni": ni, "nc": nc, "nt": nt, "names": names, "cells": cells, "labels": "default", "values": "repeats", "vseed": ni * 10 + nc}
    rng = np.random.default_rng([seed, 15])
    nrand = 60 if tier == "quick" else 3000
    for _ in range(nrand):
        yield {"ni": int(rng.integers(1, 9 if tier == "quick" else 31)), "nc": int(rng.integers(1, 5 if tier == "quick" else 7)),
               "nt": int(rng.integers(2, 14 if tier == "quick" else 51)), "names": ["default", "str", "int"][int(rng.integers(0, 3))],
               "cells": "SA"[int(rng.integers(0, 2))], "labels": ["default", "default", "ints", "strs", "unsorted-ints", "unsorted-strs"][int(rng.integers(0, 6))],
               "values": ["id", "random", "huge", "repeats"][int(rng.integers(0, 4))], "vseed": int(rng.integers(0, 2 ** 31))}


def _names(scheme, nc):
    if scheme == "default":
        return ["var_%d" % j for j in range(nc)]
    if scheme == "str":
        return ["b%d_x" % (nc - j) for j in range(nc)]   # deliberately not in sorted order
    return list(range(10, 10 + nc))


def _make(case):
    ni, nc, nt = case["ni"], case["nc"], case["nt"]
    if case["values"] == "id":
        arr = np.array([[[1e6 * (i + 1) + 1e3 * (j + 1) + t for t in range(nt)] for j in range(nc)] for i in range(ni)], dtype=float)
    elif case["values"] == "repeats":
        # few distinct values (counts, plateaus, padding): observations that repeat within a series, across variables and across instances
        rng = np.random.default_rng([case["vseed"], 152])
        arr = rng.integers(0, 3, size=(ni, nc, nt)).astype(float)
        arr[:, :, -1] = arr[:, :, 0]
        if ni >= 2:
            arr[1] = arr[0]
    else:
        rng = np.random.default_rng([case["vseed"], 151])
        arr = rng.normal(0, 1.0 if case["values"] == "random" else 1e12, size=(ni, nc, nt))
    nm = _names(case["names"], nc)
    cont = (lambda v: pd.Series(v)) if case["cells"] == "S" else (lambda v: np.array(v))
    df = pd.DataFrame({nm[j]: [cont(arr[i, j].copy()) for i in range(ni)] for j in range(nc)})
    if case["labels"] == "ints":
        df.index = [100 + 7 * i for i in range(ni)]
    elif case["labels"] == "unsorted-ints":
        df.index = [3 + 5 * ((ni - i) % ni) + (i % 2) * 100 for i in range(ni)]          # distinct, neither ascending nor descending
    elif case["labels"] == "unsorted-strs":
        df.index = ["id_%d" % (ni - i) for i in range(ni)]                              # descending / lexicographically disordered
    elif case["labels"] == "strs":
        df.index = ["case_%02d" % i for i in range(ni)]
    return arr, df, nm


def _decode(rep, obj):
    """representation -> (3-d array, column names or None)"""
    if rep in ("nested", "nestedA"):
        ni, nc = obj.shape
        cells = [[np.asarray(obj.iloc[i, j], dtype=float) for j in range(nc)] for i in range(ni)]
        return np.array(cells, dtype=float), list(obj.columns)
    if rep == "np3d":
        return np.asarray(obj, dtype=float), None
    if rep == "mi":
        inst = list(dict.fromkeys(obj.index.get_level_values(0)))
        tp = list(dict.fromkeys(obj.index.get_level_values(1)))
        out = np.full((len(inst), obj.shape[1], len(tp)), np.nan)
        ii = {a: k for k, a in enumerate(inst)}
        tt = {b: k for k, b in enumerate(tp)}
        for (a, b), row in zip(obj.index, obj.values):
            out[ii[a], :, tt[b]] = row
        return out, list(obj.columns)
    if rep == "tab2d":
        a = np.asarray(obj, dtype=float)
        return a.reshape(a.shape[0], 1, a.shape[1]), None
    if rep == "long":
        ic, tc, dc, vc = list(obj.columns)[:4]
        insts = list(dict.fromkeys(obj[ic]))
        dims = sorted(dict.fromkeys(obj[dc]))
        tps = sorted(dict.fromkeys(obj[tc]))
        out = np.full((len(insts), len(dims), len(tps)), np.nan)
        ii = {a: k for k, a in enumerate(insts)}
        dd = {a: k for k, a in enumerate(dims)}
        tt = {a: k for k, a in enumerate(tps)}
        for a, b, c, v in zip(obj[ic], obj[tc], obj[dc], obj[vc]):
            out[ii[a], dd[c], tt[b]] = v
        return out, dims
    raise ValueError(rep)


def _conv_table():
    from sktime.utils import data_processing as D

    return {
        ("nested", "np3d"): lambda x, n: D.from_nested_to_3d_numpy(x),
        ("nestedA", "np3d"): lambda x, n: D.from_nested_to_3d_numpy(x),
        ("np3d", "nested"): lambda x, n: D.from_3d_numpy_to_nested(x, column_names=n),
        ("np3d", "nestedA"): lambda x, n: D.from_3d_numpy_to_nested(x, column_names=n, cells_as_numpy=True),
        ("nested", "mi"): lambda x, n: D.from_nested_to_multi_index(x, instance_index="case", time_index="tp"),
        ("nestedA", "mi"): lambda x, n: D.from_nested_to_multi_index(x, instance_index="case", time_index="tp"),
        ("mi", "nested"): lambda x, n: D.from_multi_index_to_nested(x, instance_index=x.index.names[0]),
        ("mi", "nestedA"): lambda x, n: D.from_multi_index_to_nested(x, instance_index=x.index.names[0], cells_as_numpy=True),
        ("np3d", "mi"): lambda x, n: D.from_3d_numpy_to_multi_index(x, instance_index="case", time_index="tp", column_names=n),
        ("mi", "np3d"): lambda x, n: D.from_multi_index_to_3d_numpy(x, instance_index=x.index.names[0], time_index=x.index.names[1]),
        ("nested", "long"): lambda x, n: D.from_nested_to_long(x, "case_id", "reading_id", "dim_id"),
        ("long", "nested"): lambda x, n: D.from_long_to_nested(x, column_names=n),   # n: names in identifier order
        ("nested", "tab2d"): lambda x, n: D.from_nested_to_2d_array(x),
        ("nestedA", "tab2d"): lambda x, n: D.from_nested_to_2d_array(x, return_numpy=True),
        ("np3d", "tab2d"): lambda x, n: D.from_3d_numpy_to_2d_array(x),
        ("tab2d", "nested"): lambda x, n: D.from_2d_array_to_nested(x),
        ("tab2d", "nestedA"): lambda x, n: D.from_2d_array_to_nested(x, cells_as_numpy=True),
    }


CARRIES_NAMES = {"nested", "nestedA", "mi", "long"}


def _expect(b, E, names):
    """expected canonical array / names after converting to representation b"""
    if b == "tab2d":
        return E.reshape(E.shape[0], 1, E.shape[1] * E.shape[2]), None
    if b == "long":
        order = sorted(range(len(names)), key=lambda j: names[j])
        return E[:, order, :], [names[j] for j in order]
    return E, names


def run_case(case, ctx):
    from sktime.utils import data_processing as D
    from sktime.utils.validation.panel import check_X

    conv = _conv_table()
    arr, df, nm = _make(case)
    start = "nested" if case["cells"] == "S" else "nestedA"
    # frontier items: (path, object, expected array, names the object carries (None if its representation has none))
    frontier = [([start], df, arr, list(nm))]
    npaths = 0
    for depth in range(3):
        new = []
        for path, obj, E, cur in frontier:
            for (a, b), f in conv.items():
                if a != path[-1]:
                    continue
                if case["labels"].startswith("unsorted") and "long" in (a, b):
                    continue        # the long table is keyed by identifiers and orders instances like it orders variables
                p2 = path + [b]
                # names handed to conversions that take them (3d array -> named representation, long -> nested)
                if cur is not None:
                    n_arg = list(cur)
                elif a == "np3d":
                    n_arg = _names(case["names"], E.shape[1])
                else:
                    n_arg = None
                try:
                    out = f(obj, n_arg)
                except Exception as e:  # noqa
                    from vmon.core import exc_sig
                    ctx.check("path.values", False, "convert:exception:%s->%s" % (a, b),
                              "conversion raised %s on path %s" % (type(e).__name__, "->".join(p2)), exception=exc_sig(e), path=p2)
                    continue
                npaths += 1
                E2, en2 = _expect(b, E, n_arg)
                if a == "tab2d":
                    en2 = [0]
                if b in ("np3d", "tab2d"):
                    en2 = None
                try:
                    got, gn = _decode(b, out)
                except Exception as e:  # noqa
                    ctx.check("path.values", False, "convert:undecodable:%s->%s" % (a, b),
                              "result of %s is not a well-formed %s: %r" % ("->".join(p2), b, e), path=p2)
                    continue
                okv = got.shape == E2.shape and np.array_equal(got, E2)
                ctx.check("path.values", okv, "convert:values-differ:%s->%s" % (a, b),
                          "values/shape/order differ after %s" % "->".join(p2), path=p2, shape_got=list(got.shape),
                          shape_expected=list(E2.shape), first_got=got.ravel()[:6].tolist(), first_expected=E2.ravel()[:6].tolist())
                if a == "np3d" and okv:
                    # the same values in other memory layouts (Fortran order / a transposed recording / a strided view): values, not strides, define a panel
                    big = np.zeros((obj.shape[0], obj.shape[1], 2 * obj.shape[2]))
                    big[:, :, ::2] = obj
                    for lname, v in (("fortran-order", np.asfortranarray(obj)), ("transposed-view", np.ascontiguousarray(obj.transpose(2, 1, 0)).T), ("strided-view", big[:, :, ::2])):
                        try:
                            gv, _ = _decode(b, f(v, n_arg))
                            same = gv.shape == E2.shape and np.array_equal(gv, E2)
                        except Exception as e:  # noqa
                            same, gv = False, None
                        ctx.check("layout", same, "convert:depends-on-memory-layout:%s->%s" % (a, b), "the conversion of a %s array differs from that of the same values in C order" % lname,
                                  layout=lname, path=p2, first_got=None if gv is None else gv.ravel()[:6].tolist(), first_expected=E2.ravel()[:6].tolist())
                if en2 is not None and gn is not None:
                    ctx.check("path.names", [str(c) for c in gn] == [str(c) for c in en2], "convert:names-differ:%s->%s" % (a, b),
                              "column names lost or reordered after %s" % "->".join(p2), got=[str(c) for c in gn], expected=[str(c) for c in en2], path=p2)
                # nestedness predicates on every produced object
                if isinstance(out, pd.DataFrame):
                    nested_expected = b in ("nested", "nestedA")
                    ctx.check("predicate", bool(D.is_nested_dataframe(out)) == nested_expected, "predicate:is_nested_dataframe:" + b,
                              "is_nested_dataframe wrong for a %s frame" % b, path=p2)
                    ctx.check("predicate", [bool(x) for x in D.are_columns_nested(out)] == [nested_expected] * out.shape[1],
                              "predicate:are_columns_nested:" + b, "are_columns_nested wrong for a %s frame" % b, path=p2)
                if okv:
                    new.append((p2, out, E2, en2))
        frontier = new
    ctx.tag("paths", npaths)
    ctx.event(shape=[case["ni"], case["nc"], case["nt"]], names=case["names"], cells=case["cells"], paths_run=npaths)
    # a multi-index panel that was cut out of a bigger one (rows selected by instance and by time point): pandas keeps the labels of the
    # bigger panel as unused index levels; the conversions must go by the rows that are there
    try:
        big = np.concatenate([arr[:1] * 0 - 1.0, arr, arr[-1:] * 0 - 2.0], axis=0)                  # one extra instance before and after
        big = np.concatenate([big, big[:, :, :1] * 0 - 3.0], axis=2)                                 # one extra time point at the end
        big_mi = D.from_3d_numpy_to_multi_index(big, instance_index="case", time_index="tp", column_names=_names(case["names"], arr.shape[1]))
        inst = big_mi.index.get_level_values(0)
        tp = big_mi.index.get_level_values(1)
        cut = big_mi[(inst >= 1) & (inst <= arr.shape[0]) & (tp < arr.shape[2])]
        for (a, b), f in conv.items():
            if a != "mi" or b == "long":
                continue
            try:
                got, _ = _decode(b, f(cut, _names(case["names"], arr.shape[1])))
                same = got.shape == arr.shape and np.array_equal(got, arr)
            except Exception as e:  # noqa
                same, got = False, repr(e)[:120]
            ctx.check("path.values", same, "convert:values-differ:mi-cut-from-a-bigger-panel->%s" % b, "converting a multi-index panel that was selected from a bigger one gives other values / fails",
                      result=got if isinstance(got, str) else list(got.shape), expected_shape=list(arr.shape))
        ctx.tag("mi-cut-from-bigger-panel")
    except Exception as e:  # noqa
        ctx.tag("mi-cut-construction-failed:" + type(e).__name__)
    # series cells that carry their own time labels (equal-length windows cut from longer recordings, stored newest first / interleaved):
    # instance order is the row order of the panel, whatever the cells' time labels say
    if case["cells"] == "S":
        ni_, nc_, nt_ = arr.shape
        for oname, starts in (("newest-first", [3 * (ni_ - 1 - i) for i in range(ni_)]), ("interleaved", [(7 * i) % (2 * ni_ + 1) for i in range(ni_)])):
            own = pd.DataFrame({nm[j]: [pd.Series(arr[i, j].copy(), index=pd.RangeIndex(starts[i], starts[i] + nt_)) for i in range(ni_)] for j in range(nc_)})
            own.index = df.index
            order = sorted(range(nc_), key=lambda j: nm[j])
            routes = {"nested->np3d": (lambda: D.from_nested_to_3d_numpy(own), arr),
                      "nested->tab2d": (lambda: D.from_nested_to_2d_array(own, return_numpy=True).reshape(ni_, nc_, nt_), arr),
                      "nested->tab2d-frame": (lambda: np.asarray(D.from_nested_to_2d_array(own), dtype=float).reshape(ni_, nc_, nt_), arr),
                      "nested->mi->nested": (lambda: D.from_multi_index_to_nested(D.from_nested_to_multi_index(own, instance_index="case", time_index="tp"), instance_index="case"), arr)}
            if not case["labels"].startswith("unsorted"):
                routes["nested->long->nested"] = (lambda: D.from_long_to_nested(D.from_nested_to_long(own, "case_id", "reading_id", "dim_id"), column_names=[nm[j] for j in order]), arr[:, order, :])
            for rname, (fn, E) in routes.items():
                try:
                    out = fn()
                    got = out if isinstance(out, np.ndarray) else _decode("nested", out)[0]
                    same = got.shape == E.shape and np.array_equal(got, E)
                    tix = isinstance(out, np.ndarray) or all(list(out.iloc[i, 0].index) == list(range(starts[i], starts[i] + nt_)) for i in range(ni_))
                    detail = {"first_values_per_instance": got[:, 0, 0].tolist()[:6] if got.ndim == 3 else None, "expected": E[:, 0, 0].tolist()[:6]}
                except Exception as e:  # noqa
                    same, tix, detail = False, True, {"exception": repr(e)[:160]}
                ctx.check("path.values", same, "convert:own-time-labels:%s:values-or-instance-order-differ" % rname,
                          "a panel whose series cells carry their own time labels (%s windows) comes back with other values / instance order" % oname, arrangement=oname, **detail)
                ctx.check("path.names", tix, "convert:own-time-labels:%s:cell-time-index-changed" % rname, "the cells' own time labels are not kept by the round trip", arrangement=oname)
        # the same label set in every cell, one instance holding it in another order: cells are sequences, their labels are not sorted or aligned by
        if ni_ >= 2 and nt_ >= 3:
            odd = pd.DataFrame({nm[j]: [pd.Series(arr[i, j].copy(), index=(list(range(nt_))[::-1] if i == 1 else list(range(nt_)))) for i in range(ni_)] for j in range(nc_)})
            for rname, fn in (("nested->np3d", lambda: D.from_nested_to_3d_numpy(odd)), ("nested->tab2d", lambda: D.from_nested_to_2d_array(odd, return_numpy=True).reshape(ni_, nc_, nt_)),
                              ("nested->tab2d-frame", lambda: np.asarray(D.from_nested_to_2d_array(odd), dtype=float).reshape(ni_, nc_, nt_))):
                try:
                    got = np.asarray(fn(), dtype=float)
                    same, detail = got.shape == arr.shape and np.array_equal(got, arr), {"second_instance": got[1, 0, :4].tolist(), "expected": arr[1, 0, :4].tolist()}
                except Exception as e:  # noqa
                    same, detail = False, {"exception": repr(e)[:160]}
                ctx.check("path.values", same, "convert:own-time-labels:%s:values-reordered-by-cell-labels" % rname,
                          "a cell whose time labels are stored in descending order comes back with its values reordered", **detail)
        ctx.tag("own-time-labels")
    # conversions that take labels for the result (instance labels, time index of the cells, column name): labels are put on, never aligned by
    X2 = arr[:, 0, :]
    ni_, nt_ = X2.shape
    for lname, labels in (("default", None), ("offset", [100 + 7 * i for i in range(ni_)]), ("descending", [ni_ - i for i in range(ni_)]),
                          ("strings", ["id_%d" % (ni_ - i) for i in range(ni_)]), ("permuted-positions", [(i + 1) % ni_ for i in range(ni_)])):
        for as_numpy in (False, True):
            tix = None if (as_numpy or lname in ("default", "strings")) else list(range(5, 5 + nt_))
            src = X2 if lname != "strings" else pd.DataFrame(X2, index=["r%d" % i for i in range(ni_)])
            try:
                out = D.from_2d_array_to_nested(src, index=None if labels is None else pd.Index(labels), columns=["series"] if lname != "default" else None,
                                                time_index=tix, cells_as_numpy=as_numpy)
                rows_ok = out.shape == (ni_, 1) and all(np.array_equal(np.asarray(out.iloc[i, 0], dtype=float), X2[i]) for i in range(ni_))
                lab_ok = list(out.index) == (list(range(ni_)) if labels is None else labels) and (lname == "default" or list(out.columns) == ["series"])
                tix_ok = as_numpy or all(list(out.iloc[i, 0].index) == (list(range(nt_)) if tix is None else tix) for i in range(ni_))
                detail = {"index": [str(v) for v in out.index][:6], "first_cell": np.asarray(out.iloc[0, 0], dtype=float)[:4].tolist()}
            except Exception as e:  # noqa
                rows_ok = lab_ok = tix_ok = False
                detail = {"exception": repr(e)[:160]}
            ctx.check("path.values", rows_ok, "convert:labelled:tab2d->nested:rows-differ", "row i of the table is not the series in row i of the result when instance labels are given",
                      labels=lname, cells_as_numpy=as_numpy, **detail)
            ctx.check("path.names", lab_ok and tix_ok, "convert:labelled:tab2d->nested:labels-differ", "the instance labels / time index / column name given are not the ones on the result",
                      labels=lname, cells_as_numpy=as_numpy, **detail)
    ctx.tag("labelled-conversions")
    # mixed frame: one nested column, one primitive column
    mixed = df.copy()
    mixed["flat"] = np.arange(len(df), dtype=float)
    ctx.check("predicate", [bool(x) for x in D.are_columns_nested(mixed)] == [True] * case["nc"] + [False] and D.is_nested_dataframe(mixed),
              "predicate:mixed-frame", "predicates wrong on a frame with nested and primitive columns")
    if case["ni"] >= 2:
        # a column with a single series-valued cell, in the first, a middle or the last row (the other rows hold primitives / missing values)
        for where in sorted({0, case["ni"] // 2, case["ni"] - 1}):
            cells = [float(i) if i % 2 else float("nan") for i in range(case["ni"])]
            cells[where] = df.iloc[0, 0]
            partly = pd.DataFrame({"a": cells, "b": np.arange(case["ni"], dtype=float)})
            ctx.check("predicate", [bool(x) for x in D.are_columns_nested(partly)] == [True, False] and D.is_nested_dataframe(partly),
                      "predicate:partly-nested-column", "a column containing one series-valued cell is not reported as nested", row_of_the_series_cell=where, rows=case["ni"])
    # a nested panel whose instances are labelled by a two-level row index (group, id): still a nested frame, still convertible
    if case["ni"] >= 2:
        grouped = df.copy()
        grouped.index = pd.MultiIndex.from_tuples([("g%d" % (i % 2), i) for i in range(case["ni"])], names=["group", "id"])
        ctx.check("predicate", bool(D.is_nested_dataframe(grouped)) and [bool(x) for x in D.are_columns_nested(grouped)] == [True] * case["nc"],
                  "predicate:nested-frame-with-two-level-row-labels", "a nested frame whose rows carry a two-level index is not reported as nested")
        ok, a3g = ctx.call("convert:exception:nested-with-two-level-row-labels->np3d", D.from_nested_to_3d_numpy, grouped)
        if ok:
            ctx.check("path.values", np.shape(a3g) == arr.shape and np.array_equal(np.asarray(a3g, dtype=float), arr), "convert:values-differ:nested-with-two-level-row-labels->np3d",
                      "nested -> 3-d array differs for a nested frame with a two-level row index")
        ok, a3c = ctx.call("check_X:exception:two-level-row-labels", check_X, grouped, coerce_to_numpy=True)
        if ok:
            ctx.check("check_X", np.shape(a3c) == arr.shape and np.array_equal(np.asarray(a3c, dtype=float), arr), "check_X:coerce_to_numpy:two-level-row-labels",
                      "check_X(coerce_to_numpy=True) differs for a nested frame with a two-level row index")
    ctx.check("predicate", D.is_nested_dataframe(arr) is False and not D.is_nested_dataframe(pd.DataFrame(arr[:, 0, :])),
              "predicate:non-nested", "is_nested_dataframe true for an array / flat frame")
    # container coercion at estimator boundaries equals the direct conversions
    ok, a3 = ctx.call("check_X:exception", check_X, df, coerce_to_numpy=True)
    if ok:
        ctx.check("check_X", isinstance(a3, np.ndarray) and a3.shape == arr.shape and np.array_equal(a3, arr), "check_X:coerce_to_numpy",
                  "check_X(coerce_to_numpy=True) differs from the panel", shape=list(np.shape(a3)))
    ok, dfp = ctx.call("check_X:exception", check_X, arr, coerce_to_pandas=True)
    if ok:
        g, gn = _decode("nested", dfp)
        ctx.check("check_X", np.array_equal(g, arr) and D.is_nested_dataframe(dfp), "check_X:coerce_to_pandas",
                  "check_X(coerce_to_pandas=True) differs from the panel")
    ok, same = ctx.call("check_X:exception", check_X, df)
    if ok:
        ctx.check("check_X", same is df, "check_X:identity", "check_X without coercion returned another object")
    if case["ni"] >= 2 and case["nc"] >= 2 and case["nt"] >= 3:
        ctx.nontrivial = True
