"""C09 - composite forecasters mean exactly the composition of their parts.

Two monitors:
 * history: recording affine transformers / recording forecasters / a recording meta-regressor
   are placed inside the real TransformedTargetForecaster and StackingForecaster; every
   recorded argument is compared with the data that step must receive (representation level
   i = output of steps < i), at fit, at predict (inverse chain in reverse order, skip tag
   honoured) and at every update;
 * reference interpreter: an independent re-implementation of the composition semantics
   (ensemble = aggregate of independently fitted members, pipeline = manual chain,
   multiplexer = selected member, stacking = hold-out meta-learning) built only from leaf
   estimators, stepped in lock-step with the real composite through fit / update / predict."""
import numpy as np
import pandas as pd

from vmon import spies, zoo

PID = "C09"
LEVEL = "exploration"
RULE = ("cases = spy pipelines (1-3 recording transformers with/without update and skip-inverse tag, recording forecaster, "
        "relative/absolute horizon, 0-3 updates), spy stacking (recording members and meta-regressor) and random compositions "
        "to depth 3 compared with the reference interpreter after fit and after each update; non-trivial: >= 2 components and "
        "(an update or depth >= 2 or gapped horizon); distinct = distinct case dict")
ANCHOR_FILES = ["sktime/forecasting/compose/*.py", "sktime/forecasting/base/_meta.py",
                "sktime/forecasting/online_learning/_online_ensemble.py"]
REQUIRED_REACH = ["_ensemble.py:EnsembleForecaster._predict", "_pipeline.py:TransformedTargetForecaster.fit",
                  "_pipeline.py:TransformedTargetForecaster._predict", "_pipeline.py:TransformedTargetForecaster.update",
                  "_multiplexer.py:MultiplexForecaster._set_forecaster", "_stack.py:StackingForecaster.fit",
                  "_meta.py:_HeterogenousEnsembleForecaster._fit_forecasters"]
REQUIRED_MONITORS = ["multiplex.delegation", "online.weights", "pipe.fit-levels", "pipe.inverse-chain", "pipe.update-levels", "stack.holdout", "stack.members-unseen",
                     "ref.fit-predict", "ref.after-update", "members.cloned"]
NOT_COVERED = ["the weight update rules of OnlineEnsembleForecaster.s algorithms themselves (the forecast is compared with the members combined under the weights the algorithm holds)",
               "exogenous data inside composites"]
ASSUMPTIONS = ["leaf forecasters and transformers are taken as given (C05/C11/C13/C14 decide them)"]
JOBS = {"quick": 8, "thorough": 16}
FHS = [[1], [1, 2, 3], [2], [1, 3], [2, 5], [3, 4]]


def cases(tier, seed):
    rng = np.random.default_rng([seed, 9])
    n_spy, n_stack, n_ref = (300, 150, 700) if tier == "quick" else (6000, 2500, 20000)
    for i in range(n_spy):
        k = int(rng.integers(1, 4))
        ts = [{"a": float(rng.choice([2.0, -3.0, 0.5, 10.0])), "b": float(10 ** (3 + j)), "skip": bool(rng.random() < 0.2),
               "upd": bool(rng.random() < 0.75)} for j in range(k)]
        yield {"kind": "pipe-spy", "ts": ts, "forecaster": ["last", "mean"][int(rng.integers(0, 2))], "n": int(rng.integers(8, 30)),
               "off": int(rng.choice([0, 4, -9, 500])), "fh": FHS[int(rng.integers(0, len(FHS)))], "abs": bool(rng.random() < 0.4),
               "updates": [[bool(rng.random() < 0.5), int(rng.integers(1, 4))] for _ in range(int(rng.integers(0, 4)))],
               "values": ["id", "random"][int(rng.integers(0, 2))], "dseed": int(rng.integers(0, 2 ** 31))}
    for i in range(n_stack):
        yield {"kind": "stack-spy", "members": int(rng.integers(2, 4)), "n": int(rng.integers(12, 30)), "off": int(rng.choice([0, 4, -9, 500])),
               "fh": FHS[int(rng.integers(0, len(FHS)))], "abs": bool(rng.random() < 0.5), "dseed": int(rng.integers(0, 2 ** 31)),
               "updates": [[bool(rng.random() < 0.5), int(rng.integers(1, 4))] for _ in range(int(rng.integers(0, 3)))]}
    MUX_MEMBERS = [["naive", {"strategy": "last"}], ["naive", {"strategy": "mean", "window_length": 4}], ["naive", {"strategy": "drift"}], ["poly", {"degree": 1}],
                   ["theta", {"sp": 1}], ["theta", {"sp": 4}], ["es", {"trend": "add"}], ["naive", {"strategy": "last", "sp": 3}]]
    for i in range(n_stack):
        k = int(rng.integers(2, 4))
        yield {"kind": "mux", "members": [MUX_MEMBERS[int(rng.integers(0, len(MUX_MEMBERS)))] for _ in range(k)], "selected": int(rng.integers(0, k)),
               "n": int(rng.integers(24, 50)), "off": int(rng.choice([0, 10, -9, 500])), "fh": FHS[int(rng.integers(0, len(FHS)))],
               "updates": [[bool(rng.random() < 0.5), int(rng.integers(1, 4))] for _ in range(int(rng.integers(0, 3)))],
               "alpha": [0.05, 0.2, 0.5, [0.05, 0.2], 0.01][int(rng.integers(0, 5))], "dseed": int(rng.integers(0, 2 ** 31))}
    for i in range(n_stack):
        k = int(rng.integers(2, 4))
        yield {"kind": "online-algo", "algo": ["nnls", "normalhedge"][i % 2], "members": [MUX_MEMBERS[int(rng.integers(0, 4))] for _ in range(k)],
               "n": int(rng.integers(20, 40)), "off": int(rng.choice([0, 10, 500])), "fh": FHS[int(rng.integers(0, len(FHS)))],
               "ops": [["update", "update", "predict", "refit", "update_predict"][int(rng.integers(0, 5))] for _ in range(int(rng.integers(2, 7)))],
               "dseed": int(rng.integers(0, 2 ** 31))}
    # an outlier filter (marks points as missing) followed by an imputer as first steps of a pipeline that is ONE member of an ensemble:
    # the siblings are fitted / updated with the series as it was given
    OUTLIER_PIPE = ["pipeline", {}, [["hampel", {"window_length": 5, "n_sigma": 1}], ["imputer", {"method": "linear"}]], ["naive", {"strategy": "mean", "window_length": 4}]]
    FIXED = [["ensemble", {"aggfunc": "mean"}, [OUTLIER_PIPE, ["naive", {"strategy": "mean", "window_length": 6}], ["poly", {"degree": 1}]]],
             ["ensemble", {"aggfunc": "median"}, [["naive", {"strategy": "last"}], OUTLIER_PIPE, ["naive", {"strategy": "mean"}]]]]
    for i in range(n_ref):
        spec = None
        for _ in range(20):
            spec = zoo.random_spec(rng, depth=3 if i % 3 == 0 else 2, allow_slow=rng.random() < 0.15)
            if zoo.children(spec):
                break
        if i % 25 == 7:
            spec = FIXED[(i // 25) % 2]
        n = int(rng.integers(zoo.min_length(spec) + 10, zoo.min_length(spec) + 36))
        case_ = {"kind": "ref", "spec": spec, "n": n, "off": int(rng.choice([0, 1, -40, 13, 10 ** 5])), "fh": FHS[int(rng.integers(0, len(FHS)))],
                 "abs": bool(rng.random() < 0.3), "updates": [[bool(rng.random() < 0.5), int(rng.integers(1, 4))] for _ in range(int(rng.integers(0, 4)))],
                 "series": ["seasonal", "walk"][int(rng.integers(0, 2))], "dseed": int(rng.integers(0, 2 ** 31))}
        if spec in FIXED:
            # the outlier filter needs a stretch at least as long as its window: batches of 5-7 observations
            case_["updates"] = [[u_, 5 + s_] for u_, s_ in case_["updates"]] or [[True, 6]]
            case_["n"] = max(n, 24)
        yield case_


def _same(a, b, tol=1e-9):
    a, b = np.asarray(a, dtype=float), np.asarray(b, dtype=float)
    return a.shape == b.shape and bool(np.allclose(a, b, rtol=tol, atol=tol * (1.0 + (float(np.max(np.abs(b))) if b.size else 0.0)), equal_nan=True))


def run_case(case, ctx):
    import warnings
    warnings.simplefilter("ignore")
    if case["kind"] == "pipe-spy":
        return _run_pipe_spy(case, ctx)
    if case["kind"] == "stack-spy":
        return _run_stack_spy(case, ctx)
    if case["kind"] == "mux":
        return _run_mux(case, ctx)
    if case["kind"] == "online-algo":
        return _run_online(case, ctx)
    return _run_ref(case, ctx)


# ---------------------------------------------------------------------------------
# the multiplexer behaves exactly like its selected member: every public call, with every argument, same result or same refusal
# ---------------------------------------------------------------------------------
def _outcome(fn):
    try:
        return ("ok", fn())
    except Exception as e:  # noqa
        return ("raised", type(e).__name__)


def _flat(o):
    """result of a forecaster call as nested lists of floats / labels"""
    if isinstance(o, tuple):
        return ["tuple"] + [_flat(x) for x in o]
    if isinstance(o, list):
        return ["list"] + [_flat(x) for x in o]
    if isinstance(o, pd.DataFrame):
        return ["frame", [str(c) for c in o.columns], [int(v) for v in o.index], np.asarray(o, dtype=float).round(9).tolist()]
    if isinstance(o, pd.Series):
        return ["series", [int(v) for v in o.index], np.asarray(o, dtype=float).round(9).tolist()]
    if isinstance(o, (float, np.floating)):
        return round(float(o), 9)
    return repr(type(o).__name__)


def _run_online(case, ctx):
    """online ensemble with a weighting algorithm: whatever the history (updates, rolling evaluation, fitting again), a forecast is the
    members' forecasts combined with the weights the algorithm object holds at that moment"""
    from sktime.forecasting.online_learning import NNLSEnsemble, NormalHedgeEnsemble, OnlineEnsembleForecaster
    from sktime.forecasting.model_selection import SlidingWindowSplitter
    rng = np.random.default_rng([case["dseed"], 910])
    k = len(case["members"])
    from sklearn.metrics import mean_squared_error
    algo = {"nnls": lambda: NNLSEnsemble(n_estimators=k), "normalhedge": lambda: NormalHedgeEnsemble(n_estimators=k, loss_func=mean_squared_error)}[case["algo"]]
    try:
        alg = algo()
    except Exception as e:  # noqa
        ctx.tag("online-algo:algorithm-not-constructible:%s:%s" % (case["algo"], type(e).__name__))
        return
    n, off, fh = case["n"], case["off"], case["fh"]
    total = n + 6 * len(case["ops"]) + 4
    full = zoo.make_series(rng, total, positive=True, off=off, kind="seasonal")
    f = OnlineEnsembleForecaster([("f%d" % i, zoo.build(s_)) for i, s_ in enumerate(case["members"])], ensemble_algorithm=alg)
    ok, _ = ctx.call("online:fit-exception", f.fit, full.iloc[:n].copy(), fh=fh)
    if not ok:
        return
    pos = n

    def check(where):
        ok, p = ctx.call("online:predict-exception", f.predict, fh)
        if not ok:
            return
        w = np.asarray(f.ensemble_algorithm.weights, dtype=float)
        parts = np.column_stack([np.asarray(m.predict(fh), dtype=float) for m in f.forecasters_])
        exp = parts @ w
        ctx.check("online.weights", _same(p.values, exp, 1e-9), "online:forecast-not-members-combined-with-the-algorithm's-current-weights",
                  "the online ensemble's forecast is not its members' forecasts combined with the weights its algorithm holds", where=where, algorithm=case["algo"],
                  weights=w.tolist(), got=p.values.tolist(), expected=exp.tolist())
    import traceback

    def call(key, fn, *a, **k):
        """like ctx.call, but a failure inside the weighting algorithm itself (numerical breakdown of the hedge solver) only ends the case"""
        try:
            return True, fn(*a, **k)
        except Exception as e:  # noqa
            if any("_prediction_weighted_ensembler" in fr.filename for fr in traceback.extract_tb(e.__traceback__)):
                ctx.tag("online-algo:algorithm-failed:%s:%s" % (case["algo"], type(e).__name__))
                return False, None
            return ctx.call(key, fn, *a, **k)
    check("after fit")
    for j, op in enumerate(case["ops"]):
        if op == "update":
            size = 1 + (case["dseed"] + j) % 3
            ok, _ = call("online:update-exception", f.update, full.iloc[pos:pos + size].copy())
            pos += size
            if not ok:
                return
        elif op == "update_predict":
            seg = full.iloc[pos:pos + 5]
            ok, _ = call("online:update_predict-exception", f.update_predict, seg.copy(), cv=SlidingWindowSplitter(fh=1, window_length=1))
            if not ok:
                return
            # (the rolling run leaves evaluated data behind, see the C10 finding; continue after them)
            ok, _ = call("online:update-exception", f.update, seg.copy())
            pos += 5
            if not ok:
                return
        elif op == "refit":
            ok, _ = ctx.call("online:fit-exception", f.fit, full.iloc[:pos].copy(), fh=fh)
            if not ok:
                return
        check("after %s #%d" % (op, j))
    ctx.event(kind="online-algo", algo=case["algo"], ops=case["ops"], weights=np.asarray(f.ensemble_algorithm.weights, dtype=float).round(4).tolist())
    ctx.tag("online-algo:" + case["algo"])
    ctx.nontrivial = True


def _run_mux(case, ctx):
    from sktime.forecasting.compose import MultiplexForecaster
    rng = np.random.default_rng([case["dseed"], 909])
    n, off, fh = case["n"], case["off"], case["fh"]
    total = n + sum(u[1] for u in case["updates"]) + max(fh) + 2
    full = zoo.make_series(rng, total, positive=True, off=off, kind="seasonal")
    y = full.iloc[:n]
    sel = case["selected"]
    mux = MultiplexForecaster([("m%d" % i, zoo.build(s)) for i, s in enumerate(case["members"])], selected_forecaster="m%d" % sel)
    direct = zoo.build(case["members"][sel])
    a, b = _outcome(lambda: mux.fit(y.copy(), fh=fh)), _outcome(lambda: direct.fit(y.copy(), fh=fh))
    if a[0] != b[0] or a[0] == "raised":
        ctx.check("multiplex.delegation", a == b or (a[0] == b[0] == "raised"), "multiplex:fit-outcome-differs-from-selected-member", "fit succeeds for one and fails for the other", mux=a[1] if a[0] == "raised" else "ok",
                  member=b[1] if b[0] == "raised" else "ok")
        return
    name = case["members"][sel][0]

    def compare(what, f_mux, f_dir):
        a, b = _outcome(f_mux), _outcome(f_dir)
        same = a[0] == b[0] and (a[1] == b[1] if a[0] == "raised" else _flat(a[1]) == _flat(b[1]))
        ctx.check("multiplex.delegation", same, "multiplex:%s-differs-from-selected-member" % what,
                  "the multiplexer's %s is not that of its selected member" % what, member=name, multiplexer=(a[1] if a[0] == "raised" else str(_flat(a[1]))[:200]),
                  selected=(b[1] if b[0] == "raised" else str(_flat(b[1]))[:200]))
    alpha = case["alpha"]
    pos = n
    for step in range(len(case["updates"]) + 1):
        compare("predict", lambda: mux.predict(fh), lambda: direct.predict(fh))
        compare("prediction-intervals", lambda: mux.predict(fh, return_pred_int=True, alpha=alpha), lambda: direct.predict(fh, return_pred_int=True, alpha=alpha))
        compare("cutoff", lambda: float(mux.cutoff), lambda: float(direct.cutoff))
        yt = full.iloc[pos:pos + max(fh)]
        compare("score", lambda: mux.score(yt, fh=list(range(1, max(fh) + 1))), lambda: direct.score(yt, fh=list(range(1, max(fh) + 1))))
        if step < len(case["updates"]):
            up, size = case["updates"][step]
            batch = full.iloc[pos:pos + size]
            pos += size
            if step % 2:
                compare("update_predict_single", lambda: mux.update_predict_single(batch.copy(), fh=fh, update_params=up, return_pred_int=True, alpha=alpha),
                        lambda: direct.update_predict_single(batch.copy(), fh=fh, update_params=up, return_pred_int=True, alpha=alpha))
            else:
                compare("update", lambda: type(mux.update(batch.copy(), update_params=up)).__name__ and 0.0, lambda: type(direct.update(batch.copy(), update_params=up)).__name__ and 0.0)
    ctx.event(kind="mux", members=[zoo.describe(m) for m in case["members"]], selected=sel, alpha=alpha, updates=case["updates"])
    ctx.tag("mux:" + name)
    ctx.nontrivial = True


# ---------------------------------------------------------------------------------
# history monitor: recording transformers inside the real pipeline
# ---------------------------------------------------------------------------------
def _run_pipe_spy(case, ctx):
    from sktime.forecasting.base import ForecastingHorizon
    from sktime.forecasting.compose import TransformedTargetForecaster

    lid = spies.new_log()
    try:
        n, off, fh = case["n"], case["off"], case["fh"]
        total = n + sum(u[1] for u in case["updates"])
        if case["values"] == "id":
            vals = 1.0 + np.arange(total, dtype=float)
        else:
            vals = np.round(np.random.default_rng([case["dseed"], 99]).normal(5, 2, size=total), 4)
        full = pd.Series(vals, index=pd.RangeIndex(off, off + total))
        y = full.iloc[:n]
        steps = []
        for j, t in enumerate(case["ts"]):
            cls = spies.spy_transformer_class(skip_inverse=t["skip"], with_update=t["upd"])
            steps.append(("t%d" % j, cls(a=t["a"], b=t["b"], log_id=lid, name="t%d" % j)))
        fspy = spies.spy_forecaster_class("naive")(strategy=case["forecaster"], window_length=3 if case["forecaster"] == "mean" else None,
                                                   log_id=lid, name="F")
        pipe = TransformedTargetForecaster(steps + [("forecaster", fspy)])
        cutoff = int(y.index[-1])
        fharg = ForecastingHorizon([cutoff + h for h in fh], is_relative=False) if case["abs"] else fh
        ok, _ = ctx.call("pipeline:fit-exception", pipe.fit, y.copy(), fh=fharg)
        if not ok:
            return
        lg = spies.log(lid)
        k = len(case["ts"])

        def level(series_vals, i):
            v = np.asarray(series_vals, dtype=float)
            for t in case["ts"][:i]:
                v = v * t["a"] + t["b"]
            return v

        # ---- fit: step i is fitted on, and transforms, the output of steps < i -----------------------
        for i in range(k):
            evs = [e for e in lg if e["name"] == "t%d" % i and e["op"] in ("fit", "transform")]
            ctx.check("pipe.fit-levels", [e["op"] for e in evs] == ["fit", "transform"] and all(_same(e["values"], level(y.values, i)) and e["index"] == list(y.index) for e in evs),
                      "pipeline:fit:transformer-input-not-output-of-previous-steps", "transformer %d was not fitted/applied on the output of the preceding steps" % i,
                      step=i, ops=[e["op"] for e in evs], got=[e["values"][:3].tolist() for e in evs], expected=level(y.values, i)[:3].tolist())
        fe = [e for e in lg if e["name"] == "F" and e["op"] == "fit"]
        ctx.check("pipe.fit-levels", len(fe) == 1 and _same(fe[0]["y_values"], level(y.values, k)) and fe[0]["y_index"] == list(y.index),
                  "pipeline:fit:forecaster-not-fitted-on-fully-transformed-series", "final forecaster was not fitted on the fully transformed series",
                  fits=len(fe), got=fe[0]["y_values"][:3].tolist() if fe else None, expected=level(y.values, k)[:3].tolist())
        # the caller's estimator objects are not the fitted ones (clones are fitted)
        ctx.check("members.cloned", not fspy.is_fitted and not any(t.is_fitted for _, t in steps), "pipeline:fits-callers-objects-instead-of-clones",
                  "the estimators passed in were fitted themselves instead of clones")

        def do_predict(cur_cutoff, stage):
            mark = len(lg)
            fa = ForecastingHorizon([cur_cutoff + h for h in fh], is_relative=False) if case["abs"] else fh
            ok, pred = ctx.call("pipeline:predict-exception", pipe.predict, fa)
            if not ok:
                return
            new = lg[mark:]
            fp = [e for e in new if e["name"] == "F" and e["op"] == "predict"]
            if not ctx.check("pipe.inverse-chain", len(fp) == 1, "pipeline:predict:forecaster-calls", "final forecaster predict not called exactly once", calls=len(fp)):
                return
            cur = fp[0]["values"]
            inv = [e for e in new if e["op"] == "inverse_transform"]
            expected_order = ["t%d" % i for i in reversed(range(k)) if not case["ts"][i]["skip"]]
            ctx.check("pipe.inverse-chain", [e["name"] for e in inv] == expected_order, "pipeline:predict:inverse-order-or-skip-tag",
                      "inverse transforms not applied in reverse order / skip-inverse-transform tag not honoured", got=[e["name"] for e in inv], expected=expected_order)
            for e in inv:
                i = int(e["name"][1:])
                ctx.check("pipe.inverse-chain", _same(e["values"], cur), "pipeline:predict:inverse-input-not-previous-output",
                          "inverse transform %s did not receive the output of the step after it" % e["name"], got=e["values"].tolist(), expected=np.asarray(cur).tolist())
                cur = (np.asarray(e["values"]) - case["ts"][i]["b"]) / case["ts"][i]["a"]
            ctx.check("pipe.inverse-chain", _same(pred.values, cur) and [int(v) for v in pred.index] == [cur_cutoff + h for h in fh],
                      "pipeline:predict:forecast-not-inverse-chain-of-forecaster-output", "pipeline forecast is not the inverse chain applied to the forecaster's forecast (%s)" % stage,
                      got=pred.values.tolist(), expected=np.asarray(cur).tolist(), index=[int(v) for v in pred.index])
            # value check against the textbook forecaster on the transformed series
            return pred

        do_predict(cutoff, "after fit")
        # ---- updates ------------------------------------------------------------------------------------
        pos = n
        seen_vals = list(y.values)
        for up, size in case["updates"]:
            batch = full.iloc[pos:pos + size]
            pos += size
            mark = len(lg)
            ok, _ = ctx.call("pipeline:update-exception", pipe.update, batch.copy(), update_params=up)
            if not ok:
                return
            new = lg[mark:]
            for i in range(k):
                if case["ts"][i]["upd"]:
                    ue = [e for e in new if e["name"] == "t%d" % i and e["op"] == "update"]
                    ctx.check("pipe.update-levels", len(ue) == 1 and _same(ue[0]["values"], level(batch.values, i)) and ue[0]["index"] == list(batch.index),
                              "pipeline:update:transformer-given-wrong-representation", "transformer %d was not updated with the output of the preceding steps" % i,
                              step=i, n_updates=len(ue), got=ue[0]["values"][:3].tolist() if ue else None, expected=level(batch.values, i)[:3].tolist())
            fu = [e for e in new if e["name"] == "F" and e["op"] == "update"]
            ctx.check("pipe.update-levels", len(fu) == 1 and _same(fu[0]["y_values"], level(batch.values, k)) and fu[0]["y_index"] == list(batch.index),
                      "pipeline:update:forecaster-given-wrong-representation", "final forecaster was updated with data in another representation than it was fitted on",
                      n_updates=len(fu), got=fu[0]["y_values"][:3].tolist() if fu else None, expected=level(batch.values, k)[:3].tolist(),
                      raw=batch.values[:3].tolist())
            if fu:
                ctx.check("pipe.update-levels", fu[0]["update_params"] == up, "pipeline:update:update_params-not-propagated", "update_params not propagated to the forecaster")
            seen_vals += list(batch.values)
            pred = do_predict(int(batch.index[-1]), "after update")
            if pred is not None and case["forecaster"] == "last" and all(not t["skip"] for t in case["ts"]):
                ctx.check("pipe.update-levels", _same(pred.values, [seen_vals[-1]] * len(fh)), "pipeline:forecast-after-update-wrong-value",
                          "affine pipeline around a last-value forecaster must forecast the last observed value", got=pred.values.tolist(), expected=seen_vals[-1])
        if not case["updates"]:
            ctx.seen("pipe.update-levels", 0)
        ctx.event(kind="pipe-spy", transformers=[(t["a"], t["b"], t["skip"], t["upd"]) for t in case["ts"]], n=n, fh=fh, updates=case["updates"],
                  events=len(lg))
        if len(case["ts"]) >= 2 or case["updates"]:
            ctx.nontrivial = True
    finally:
        spies.drop(lid)


# ---------------------------------------------------------------------------------
# history monitor: recording members and meta-regressor inside the real stacking forecaster
# ---------------------------------------------------------------------------------
def _run_stack_spy(case, ctx):
    from sktime.forecasting.base import ForecastingHorizon
    from sktime.forecasting.compose import StackingForecaster

    lid = spies.new_log()
    try:
        n, off, fh = case["n"], case["off"], case["fh"]
        hmax = max(fh)
        total = n + sum(u[1] for u in case["updates"])
        rng = np.random.default_rng([case["dseed"], 98])
        full = pd.Series(np.round(100 + np.cumsum(rng.normal(0, 2, size=total)), 3), index=pd.RangeIndex(off, off + total))
        y = full.iloc[:n]
        cfgs = [("last", None), ("mean", 3), ("drift", None)]
        members = []
        for j in range(case["members"]):
            s, wl = cfgs[j % 3]
            members.append(("f%d" % j, spies.spy_forecaster_class("naive")(strategy=s, window_length=wl, log_id=lid, name="f%d" % j)))
        meta = spies.SpyTabularRegressor(log_id=lid, name="meta")
        st = StackingForecaster(members, final_regressor=meta)
        cutoff = int(y.index[-1])
        # stacking keeps the horizon it was fitted with; an absolute one cannot follow the cutoff through updates
        fharg = ForecastingHorizon([cutoff + h for h in fh], is_relative=False) if (case["abs"] and not case["updates"]) else fh
        ok, _ = ctx.call("stack:fit-exception", st.fit, y.copy(), fh=fharg)
        if not ok:
            return
        lg = spies.log(lid)
        split = n - hmax          # members may only see y[:split] before the meta-regressor is trained
        held_idx = [int(y.index[split - 1]) + h for h in fh]
        held_vals = [float(y.loc[t]) for t in held_idx]
        meta_fit_pos = next((i for i, e in enumerate(lg) if e["name"] == "meta" and e["op"] == "fit"), None)
        if not ctx.check("stack.holdout", meta_fit_pos is not None, "stack:meta-regressor-never-fitted", "meta-regressor was never fitted"):
            return
        before = lg[:meta_fit_pos]
        mfits = [e for e in before if e["op"] == "fit" and e["name"].startswith("f")]
        ctx.check("stack.members-unseen", len(mfits) == case["members"] and all(e["y"][1] == int(y.index[split - 1]) and e["y"][2] == split for e in mfits),
                  "stack:members-saw-held-out-window-before-meta-fit", "members were fitted on data reaching into the held-out window before the meta-regressor was trained",
                  windows=[e["y"] for e in mfits], held_out_from=int(y.index[split - 1]) + 1)
        mpreds = [e for e in before if e["op"] == "predict" and e["name"].startswith("f")]
        ctx.check("stack.holdout", len(mpreds) == case["members"] and all(e["index"] == held_idx for e in mpreds), "stack:member-forecasts-not-for-held-out-window",
                  "members were not asked to forecast exactly the held-out window", asked=[e["index"] for e in mpreds], held_out=held_idx)
        mf = lg[meta_fit_pos]
        if len(mpreds) == case["members"]:
            Xexp = np.column_stack([e["values"] for e in sorted(mpreds, key=lambda e: e["name"])])
            ctx.check("stack.holdout", _same(mf["X"], Xexp), "stack:meta-features-not-member-forecasts", "X_meta is not the column stack of the members' hold-out forecasts",
                      got=np.asarray(mf["X"]).tolist(), expected=Xexp.tolist())
        ctx.check("stack.holdout", _same(mf["y"], held_vals), "stack:meta-targets-not-held-out-observations", "y_meta is not the held-out observations",
                  got=np.asarray(mf["y"]).tolist(), expected=held_vals)
        after = lg[meta_fit_pos + 1:]
        refits = [e for e in after if e["op"] == "fit" and e["name"].startswith("f")]
        ctx.check("stack.members-unseen", len(refits) == case["members"] and all(e["y"][2] == n for e in refits), "stack:members-not-refitted-on-all-data",
                  "members were not refitted on the whole series after the meta step", windows=[e["y"] for e in refits])
        ctx.check("members.cloned", not any(m.is_fitted for _, m in members), "stack:fits-callers-objects-instead-of-clones", "member objects passed in were fitted themselves")

        def do_predict(cur_cutoff):
            mark = len(lg)
            ok, pred = ctx.call("stack:predict-exception", st.predict, None)
            if not ok:
                return
            new = lg[mark:]
            mp = [e for e in new if e["op"] == "predict" and e["name"].startswith("f")]
            mm = [e for e in new if e["op"] == "predict" and e["name"] == "meta"]
            exp_idx = [cur_cutoff + h for h in fh]
            if ctx.check("stack.holdout", len(mp) == case["members"] and len(mm) == 1 and all(e["index"] == exp_idx for e in mp), "stack:predict-call-structure",
                         "predict did not query every member for the horizon and the meta-regressor once", members=len(mp), meta=len(mm), asked=[e["index"] for e in mp]):
                Xp = np.column_stack([e["values"] for e in sorted(mp, key=lambda e: e["name"])])
                ctx.check("stack.holdout", _same(mm[0]["X"], Xp) and _same(pred.values, mm[0]["out"][:, 0]) and [int(v) for v in pred.index] == exp_idx,
                          "stack:forecast-not-meta-regressor-of-member-forecasts", "stacked forecast is not the meta-regressor's output on the members' forecasts",
                          got=pred.values.tolist())
        do_predict(cutoff)
        pos = n
        for up, size in case["updates"]:
            batch = full.iloc[pos:pos + size]
            pos += size
            mark = len(lg)
            ok, _ = ctx.call("stack:update-exception", st.update, batch.copy(), update_params=up)
            if not ok:
                return
            ups = [e for e in lg[mark:] if e["op"] == "update"]
            ctx.check("stack.members-unseen", len(ups) == case["members"] and all(e["y_index"] == list(batch.index) and e["update_params"] == up for e in ups),
                      "stack:update-not-propagated-to-members", "update was not propagated to every member with the new data and update_params", n=len(ups))
            do_predict(int(batch.index[-1]))
        ctx.event(kind="stack-spy", members=case["members"], n=n, fh=fh, absolute=case["abs"], held_out=held_idx, x_meta=np.asarray(mf["X"]).tolist()[:3])
        ctx.nontrivial = True
    finally:
        spies.drop(lid)


# ---------------------------------------------------------------------------------
# reference interpreter
# ---------------------------------------------------------------------------------
class RefDetrend:
    """own least-squares polynomial detrender (numpy only): trend fitted on positions counted from the first training time point; new data
    re-estimate it only when parameters are updated"""

    def __init__(self, degree):
        self.degree = degree

    def _refit(self):
        ts = sorted(self.seen)
        x = np.array([t - self.t0 for t in ts], dtype=float)
        v = np.array([self.seen[t] for t in ts], dtype=float)
        self.coef = np.polyfit(x, v, self.degree) if self.degree > 0 else np.array([v.mean()])

    def _trend(self, index):
        return np.polyval(self.coef, np.array([int(t) - self.t0 for t in index], dtype=float))

    def fit_transform(self, z):
        self.t0 = int(z.index[0])
        self.seen = {int(t): float(v) for t, v in zip(z.index, z.values)}
        self._refit()
        return self.transform(z)

    def transform(self, z):
        return pd.Series(np.asarray(z, dtype=float) - self._trend(z.index), index=z.index)

    def inverse_transform(self, z):
        return pd.Series(np.asarray(z, dtype=float) + self._trend(z.index), index=z.index)

    def update(self, z, update_params=True):
        self.seen.update({int(t): float(v) for t, v in zip(z.index, z.values)})
        if update_params:
            self._refit()


class RefLog:
    def fit_transform(self, z):
        return self.transform(z)

    def transform(self, z):
        return pd.Series(np.log(np.asarray(z, dtype=float)), index=z.index)

    def inverse_transform(self, z):
        return pd.Series(np.exp(np.asarray(z, dtype=float)), index=z.index)


class RefFrozen:
    """a transformer behind a wrapper that does not pass updates on: fitted once, applied as fitted"""

    def __init__(self, inner):
        self.inner = inner

    def fit_transform(self, z):
        return self.inner.fit_transform(z)

    def transform(self, z):
        return self.inner.transform(z)

    def inverse_transform(self, z):
        return self.inner.inverse_transform(z)


class RefIdentity:
    def fit_transform(self, z):
        return z

    def transform(self, z):
        return z

    def inverse_transform(self, z):
        return z


def _ref_transformer(t, own=True):
    """own implementations where the definition is two lines; the package's transformer otherwise (its own behaviour is C13's business).
    own=False: the package's detrender also here - used in front of numerically optimised forecasters (exponential smoothing family), whose
    optimum moves in the 4th-7th digit when their input moves in the 12th (own least squares vs the package's), so that only a bit-identical
    input gives a comparison tighter than the effects looked for"""
    if t[0] == "optional":
        # OptionalPassthrough(T, passthrough=False) means exactly T; with passthrough=True it means nothing at all
        # (the wrapper has no update of its own, so the wrapped transformer stays as fitted while the pipeline is updated)
        return RefIdentity() if t[1].get("passthrough", False) else RefFrozen(_ref_transformer(t[2], own))
    if t[0] == "detrend" and not t[1].get("default") and own:
        return RefDetrend(t[1].get("degree", 1))
    if t[0] == "log":
        return RefLog()
    return zoo.build_transformer(t)


class Ref:
    """independent semantics of a composite spec, built from leaf estimators only"""

    def __init__(self, spec):
        self.spec = spec
        self.kind = spec[0]

    def fit(self, y, fh):
        k, s = self.kind, self.spec
        self.cutoff = y.index[-1]
        self.fh = fh
        if k == "ensemble":
            self.members = [Ref(c).fit(y, fh) for c in s[2]]
        elif k == "multiplex":
            self.member = Ref(s[2][s[1].get("selected", 0)]).fit(y, fh)
        elif k == "pipeline":
            self.ts = [_ref_transformer(t, own=not _uses_optimiser(s[3])) for t in s[2]]
            yt = y
            for t in self.ts:
                yt = t.fit_transform(yt)
            self.final = Ref(s[3]).fit(yt, fh)
        elif k == "stack":
            hmax = max(fh)
            split = len(y) - hmax
            members = [Ref(c).fit(y.iloc[:split], fh) for c in s[2]]
            X_meta = np.column_stack([m.predict(fh).values for m in members])
            y_meta = np.array([y.iloc[split - 1 + h] for h in fh])
            self.reg = zoo.build_regressor("raw" + s[1].get("reg", "lin")).fit(X_meta, y_meta)
            self.members = [Ref(c).fit(y, fh) for c in s[2]]
        else:
            self.leaf = zoo.build(s)
            self.leaf.fit(y.copy(), fh=fh)
        return self

    def update(self, y_new, update_params):
        k = self.kind
        self.cutoff = y_new.index[-1]
        if k in ("ensemble", "stack"):
            for m in self.members:
                m.update(y_new, update_params)
        elif k == "multiplex":
            self.member.update(y_new, update_params)
        elif k == "pipeline":
            yt = y_new
            for t in self.ts:
                if hasattr(t, "update"):
                    t.update(yt, update_params=update_params)
                yt = t.transform(yt)
            self.final.update(yt, update_params)
        else:
            self.leaf.update(y_new.copy(), update_params=update_params)
        return self

    def predict(self, fh):
        from sktime.utils import _has_tag
        k = self.kind
        if k == "ensemble":
            P = np.column_stack([m.predict(fh).values for m in self.members])
            agg = {"mean": np.mean, "median": np.median, "min": np.min, "max": np.max}[self.spec[1].get("aggfunc", "mean")]
            return pd.Series(agg(P, axis=1), index=[int(self.cutoff) + h for h in fh])
        if k == "multiplex":
            return self.member.predict(fh)
        if k == "pipeline":
            p = self.final.predict(fh)
            for t in reversed(self.ts):
                if isinstance(t, (RefDetrend, RefLog, RefIdentity)) or (isinstance(t, RefFrozen) and (isinstance(t.inner, (RefDetrend, RefLog)) or not _has_tag(t.inner, "skip-inverse-transform"))) or (not isinstance(t, RefFrozen) and not _has_tag(t, "skip-inverse-transform")):
                    p = t.inverse_transform(p)
            return p
        if k == "stack":
            P = np.column_stack([m.predict(fh).values for m in self.members])
            return pd.Series(self.reg.predict(P), index=[int(self.cutoff) + h for h in fh])
        return self.leaf.predict(fh)


def _uses_optimiser(spec):
    """a numerically optimised leaf (exponential smoothing family) somewhere in the composition: its fitted parameters move in the 7th digit
    when its input moves in the 12th, which it does between the package's least-squares detrender and the reference's own"""
    return spec[0] in ("es", "ets", "theta") or any(_uses_optimiser(c) for c in zoo.children(spec))


def _run_ref(case, ctx):
    from sktime.forecasting.base import ForecastingHorizon

    spec, n, off, fh = case["spec"], case["n"], case["off"], case["fh"]
    rng = np.random.default_rng([case["dseed"], 97])
    total = n + sum(u[1] for u in case["updates"])
    full = zoo.make_series(rng, total, positive=True, off=off, kind=case["series"], integer=case["dseed"] % 5 == 0)
    y = full.iloc[:n]
    real = zoo.build(spec)
    if case["dseed"] % 4 == 0 and zoo.children(spec) and spec[0] in ("ensemble", "stack", "online", "multiplex", "pipeline"):
        # the composite had an earlier life: the same class with other parts, fitted on another series, then reconfigured with set_params
        # to the parts of this case - the second fit must be that of the new parts
        alt = [spec[0], dict(spec[1])] + [list(x) if isinstance(x, list) else x for x in spec[2:]]
        simple = ["naive", {"strategy": "mean", "window_length": 2}]
        if spec[0] == "pipeline":
            alt[3] = simple
        else:
            alt[2] = [simple for _ in spec[2]]
        try:
            used = zoo.build(alt)
            y0 = zoo.make_series(rng, zoo.min_length(spec) + 14, positive=True, off=off + 5, kind="walk")
            used.fit(y0, fh=fh)
            used.predict(fh)
            target = real.get_params(deep=False)
            attr_ = "steps" if "steps" in target else "forecasters"
            if case["dseed"] % 8 == 0 and isinstance(target.get(attr_), list) and len(target[attr_]) >= 2:
                # the whole list and one component by name in ONE call: the list holds a stand-in at that place, the call names the real part
                # (documented order: list first, then replacement by name)
                j_ = (case["dseed"] // 8) % len(target[attr_])
                nm_, comp_ = target[attr_][j_]
                from sktime.forecasting.base import BaseForecaster
                from sktime.transformations.series.boxcox import LogTransformer
                stand_in = zoo.build(simple) if isinstance(comp_, BaseForecaster) else LogTransformer()
                lst_ = [(n_, (stand_in if i_ == j_ else c_)) for i_, (n_, c_) in enumerate(target[attr_])]
                used.set_params(**dict({k_: v_ for k_, v_ in target.items() if k_ != attr_}, **{attr_: lst_, nm_: comp_}))
                ctx.tag("composite:reconfigured-with-list-and-named-part-in-one-call")
            else:
                used.set_params(**target)
            real = used
            ctx.tag("composite:reconfigured-after-an-earlier-fit")
        except Exception as e:  # noqa
            ctx.tag("earlier-life-failed:" + type(e).__name__)
            real = zoo.build(spec)
    TOL = 2e-5 if _uses_optimiser(spec) else 1e-7
    cutoff = int(y.index[-1])
    # a horizon-dependent forecaster keeps the horizon it was fitted with: an absolute one refers to fixed time points and
    # cannot follow the cutoff through updates, so absolute horizons are only combined with updates for the others
    use_abs = case["abs"] and not (zoo.requires_fh_in_fit(spec) and case["updates"])
    fharg = ForecastingHorizon([cutoff + h for h in fh], is_relative=False) if use_abs else fh
    ok, _ = ctx.call("composite:fit-exception:" + spec[0], real.fit, y.copy(), fh=fharg)
    if not ok:
        return
    try:
        ref = Ref(spec).fit(y.copy(), fh)
    except Exception as e:  # noqa - reference cannot be built: not a verdict on the code under test
        ctx.tag("reference-failed:" + type(e).__name__)
        return
    ok, p = ctx.call("composite:predict-exception:" + spec[0], real.predict, fharg)
    if not ok:
        return
    pr = ref.predict(fh)
    ctx.check("ref.fit-predict", [int(v) for v in p.index] == [cutoff + h for h in fh] and _same(p.values, pr.values, TOL),
              "composite:%s:forecast-differs-from-composition-of-parts" % spec[0], "composite forecast differs from the composition of its parts after fit",
              spec=zoo.describe(spec), got=p.values.tolist(), expected=pr.values.tolist())
    if spec[0] == "pipeline":
        # the pipeline's own transformer interface (used when a pipeline is a step of another pipeline): the chain of the fitted transformers
        # in order, and its inverse in reverse order
        try:
            zt = y.copy()
            for t in ref.ts:
                zt = t.transform(zt)
            back = zt.copy()
            for t in reversed(ref.ts):
                back = t.inverse_transform(back)
            okr = True
        except Exception as e:  # noqa
            okr = False
            ctx.tag("reference-failed:" + type(e).__name__)
        if okr:
            ok, zr = ctx.call("pipeline:transform-exception", real.transform, y.copy())
            if ok:
                ctx.check("ref.fit-predict", list(zr.index) == list(zt.index) and _same(np.asarray(zr, dtype=float), np.asarray(zt, dtype=float), 1e-7), "pipeline:transform-not-the-chain-of-its-transformers",
                          "pipeline.transform differs from applying its fitted transformers in order", spec=zoo.describe(spec))
                ok, br = ctx.call("pipeline:inverse_transform-exception", real.inverse_transform, zr.copy())
                if ok:
                    ctx.check("ref.fit-predict", _same(np.asarray(br, dtype=float), np.asarray(back, dtype=float), 1e-7), "pipeline:inverse_transform-not-the-inverse-chain-in-reverse-order",
                              "pipeline.inverse_transform differs from applying the inverse transforms of its fitted transformers in reverse order", spec=zoo.describe(spec),
                              got=np.asarray(br, dtype=float)[:4].tolist(), expected=np.asarray(back, dtype=float)[:4].tolist(), original=y.values[:4].tolist())
                ctx.tag("pipeline:transformer-interface")
    pos = n
    for up, size in case["updates"]:
        batch = full.iloc[pos:pos + size]
        pos += size
        ok, _ = ctx.call("composite:update-exception:" + spec[0], real.update, batch.copy(), update_params=up)
        if not ok:
            return
        try:
            ref.update(batch.copy(), up)
            pr = ref.predict(fh)
        except Exception as e:  # noqa
            ctx.tag("reference-failed:" + type(e).__name__)
            return
        c2 = int(batch.index[-1])
        fa = ForecastingHorizon([c2 + h for h in fh], is_relative=False) if use_abs else (None if zoo.requires_fh_in_fit(spec) else fh)
        ok, p = ctx.call("composite:predict-after-update-exception:" + spec[0], real.predict, fa)
        if not ok:
            return
        ctx.check("ref.after-update", [int(v) for v in p.index] == [c2 + h for h in fh] and _same(p.values, pr.values, TOL),
                  "composite:%s:forecast-after-update-differs-from-composition-of-parts" % spec[0],
                  "composite forecast after update differs from updating the parts", spec=zoo.describe(spec), update_params=up, got=p.values.tolist(),
                  expected=pr.values.tolist())
    if not case["updates"]:
        ctx.seen("ref.after-update", 0)
    ctx.event(kind="ref", spec=zoo.describe(spec), n=n, fh=fh, absolute=case["abs"], updates=case["updates"], forecast=p.values.tolist()[:4])
    ctx.tag("top:" + spec[0])
    depth = lambda s: 1 + max([depth(c) for c in zoo.children(s)] or [0])  # noqa
    if case["updates"] or depth(spec) >= 3 or fh != list(range(1, len(fh) + 1)):
        ctx.nontrivial = True
