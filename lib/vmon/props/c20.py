"""C20 - malformed data, horizons and settings are rejected, never silently mis-handled.

Table-driven fault injection: every cell of the applicability matrix (malformed class x entry
point) is executed with a randomised, otherwise valid context; the call must raise ValueError,
TypeError or NotImplementedError, produce no result and leave no fitted state; the valid twin
(same call with only the offending aspect repaired) must be accepted."""
import numpy as np
import pandas as pd

from vmon import zoo

PID = "C20"
LEVEL = "exploration"
RULE = ("case = (cell of the applicability matrix: malformed class x entry point, context seed); each case runs the malformed call and "
        "its valid twin; non-trivial: every cell (a malformed call reached the entry point's validation); distinct = distinct case dict")
ANCHOR_FILES = ["sktime/utils/validation/*.py", "sktime/forecasting/base/_fh.py", "sktime/forecasting/base/_sktime.py", "sktime/forecasting/naive.py",
                "sktime/forecasting/model_selection/_split.py", "sktime/forecasting/compose/*.py", "sktime/forecasting/base/_meta.py",
                "sktime/forecasting/model_evaluation/_functions.py", "sktime/base/_meta.py", "sktime/forecasting/model_selection/_tune.py"]
REQUIRED_REACH = ["series.py:check_series", "series.py:check_time_index", "series.py:check_equal_time_index", "forecasting.py:check_y_X",
                  "forecasting.py:check_fh", "__init__.py:check_window_length", "forecasting.py:check_step_length", "forecasting.py:check_sp",
                  "forecasting.py:check_cutoffs", "_split.py:_check_window_lengths", "_meta.py:_HeterogenousEnsembleForecaster._check_forecasters",
                  "_pipeline.py:TransformedTargetForecaster._check_steps", "_meta.py:_HeterogenousMetaEstimator._check_names",
                  "_sktime.py:_RequiredForecastingHorizonMixin._set_fh", "_reduce.py:_check_strategy"]
REQUIRED_MONITORS = ["rejected", "no-fitted-state", "twin-accepted"]
NOT_COVERED = ["non-integer pd.Index objects (compatibility layer)", "a DataFrame target for temporal_train_test_split (a generic splitting utility that documents y as a series but splits any pandas object)", "bool as an integer parameter", "duplicate (non-strictly increasing) time labels",
               "None for parameters documented optional", "NaiveForecaster(strategy='last', sp=1) window_length and strategy='drift' sp: documented as ignored"]
ASSUMPTIONS = ["the applicability matrix in c20.CELLS lists which malformed class is meaningful for which entry point"]
JOBS = {"quick": 8, "thorough": 16}
OKEXC = (ValueError, TypeError, NotImplementedError)
BADINT = [0, -1, 1.5, "3"]


# ---------------------------------------------------------------------------------
# context
# ---------------------------------------------------------------------------------
class Cx:
    def __init__(self, seed):
        self.rng = np.random.default_rng([seed, 2020])
        self.n = int(self.rng.integers(24, 40))
        self.off = int(self.rng.choice([0, 5, -11, 300]))
        self.y = zoo.make_series(self.rng, self.n, positive=True, off=self.off)
        self.X = pd.DataFrame({"a": self.rng.normal(0, 1, self.n), "b": np.arange(self.n) * 0.5}, index=self.y.index)
        self.fh = [[1], [1, 2, 3], [2, 4]][int(self.rng.integers(0, 3))]
        self.ynew = pd.Series(self.rng.normal(50, 3, 3), index=pd.RangeIndex(self.off + self.n, self.off + self.n + 3))

    def bad_y(self, cls):
        y = self.y
        if cls == "unsorted":
            idx = list(y.index)
            idx[3], idx[7] = idx[7], idx[3]
            return pd.Series(y.values, index=pd.Index(idx))
        if cls == "backwards-range":
            # the time index runs backwards as a range index with a negative step (what y[::-1] of a default-indexed series carries)
            return pd.Series(y.values[::-1].copy(), index=pd.RangeIndex(int(y.index[-1]), int(y.index[0]) - 1, -1))
        if cls == "backwards":
            return pd.Series(y.values[::-1].copy(), index=pd.Index(list(y.index)[::-1]))
        if cls == "empty":
            return y.iloc[:0]
        if cls == "dataframe":
            return pd.DataFrame({"a": y.values, "b": y.values * 2}, index=y.index)
        if cls == "ndarray":
            return y.values.copy()
        if cls == "list":
            return list(y.values)
        raise ValueError(cls)

    def bad_X(self, cls):
        """exogenous data whose time index differs from the target's: moved, longer on either side, shorter"""
        X = self.X
        if cls == "shifted":
            Xb = X.copy()
            Xb.index = Xb.index + 2
            return Xb
        extra = pd.DataFrame({"a": [0.5, -0.5], "b": [1.0, 2.0]})
        if cls == "longer":
            extra.index = pd.RangeIndex(X.index[-1] + 1, X.index[-1] + 3)
            return pd.concat([X, extra])
        if cls == "longer-front":
            extra.index = pd.RangeIndex(X.index[0] - 2, X.index[0])
            return pd.concat([extra, X])
        if cls == "shorter":
            return X.iloc[:-2].copy()
        raise ValueError(cls)

    def bad_fh(self, cls):
        if cls in ("empty-fh-object", "empty-abs-fh-object", "empty-array", "empty-index"):
            # the same empty horizon in the other containers a horizon may arrive in (the horizon class itself allows empty values)
            from sktime.forecasting.base import ForecastingHorizon
            import pandas as pd
            return {"empty-fh-object": lambda: ForecastingHorizon([]), "empty-array": lambda: np.array([], dtype=int), "empty-index": lambda: pd.Index([], dtype="int64"),
                    "empty-abs-fh-object": lambda: ForecastingHorizon(pd.Index([], dtype="int64"), is_relative=False)}[cls]()
        return {"dup": [1, 2, 2], "empty": [], "frac": [1.5, 2.0], "str": "ab", "tuple": (1, 2), "set": {1, 2}, "nan": [float("nan"), 1.0],
                "dup-array": np.array([3, 3]), "2d": np.array([[1, 2], [3, 4]]), "dup-index-sorted": pd_index([1, 2, 2]), "dup-index-constant": pd_index([2, 2])}[cls]


Y_CLASSES = ["unsorted", "empty", "dataframe", "ndarray", "list", "backwards-range", "backwards"]
FH_CLASSES = ["dup", "empty", "frac", "str", "tuple", "set", "dup-array", "empty-fh-object", "empty-abs-fh-object", "empty-array", "empty-index", "dup-index-sorted", "dup-index-constant"]


def pd_index(v):
    import pandas as pd
    return pd.Index(v, dtype="int64")

FORECASTERS = {
    "naive": ["naive", {"strategy": "mean", "window_length": 4}],
    "naive-seasonal": ["naive", {"strategy": "last", "sp": 3}],
    "poly": ["poly", {"degree": 1}],
    "es": ["es", {}],
    "reduce-rec": ["reduce", {"strategy": "recursive", "window_length": 3, "reg": "lin"}],
    "reduce-dir": ["reduce", {"strategy": "direct", "window_length": 3, "reg": "lin"}],
    "ensemble": ["ensemble", {"aggfunc": "mean"}, [["naive", {"strategy": "last"}], ["poly", {"degree": 1}]]],
    "pipeline": ["pipeline", {}, [["detrend", {"degree": 1}]], ["naive", {"strategy": "last"}]],
    "multiplex": ["multiplex", {"selected": 0}, [["naive", {"strategy": "last"}], ["poly", {"degree": 1}]]],
    "stack": ["stack", {"reg": "lin"}, [["naive", {"strategy": "last"}], ["poly", {"degree": 1}]]],
    "grid": ["grid", {"grid": {"strategy": ["last", "mean"]}, "cv": ["sliding", {"fh": [1], "window_length": 10, "step_length": 4}], "scoring": None}, ["naive", {}]],
}
TAKES_X = {"naive", "naive-seasonal", "reduce-rec", "reduce-dir"}


def _fit_cell(fname, what, cls):
    """malformed argument of forecaster.fit"""
    def run(cx):
        spec = FORECASTERS[fname]
        f = zoo.build(spec)
        fh = cx.fh if not (fname == "grid") else [1]
        if what == "y":
            bad = lambda: f.fit(cx.bad_y(cls), fh=fh)  # noqa
        elif what == "X":
            Xb = cx.bad_X(cls)
            bad = lambda: f.fit(cx.y.copy(), Xb, fh=fh)  # noqa
        else:
            bad = lambda: f.fit(cx.y.copy(), fh=cx.bad_fh(cls))  # noqa
        g = zoo.build(spec)
        twin = lambda: g.fit(cx.y.copy(), cx.X.copy() if what == "X" else None, fh=fh)  # noqa
        return bad, twin, f
    return run


def _predict_cell(fname, cls):
    def run(cx):
        spec = FORECASTERS[fname]
        f = zoo.build(spec)
        need = zoo.requires_fh_in_fit(spec)
        f.fit(cx.y.copy(), fh=cx.fh if need or fname == "grid" else None)
        if cls == "missing":
            if need or fname == "grid":
                return None
            bad = lambda: f.predict()  # noqa
        elif cls in ("different", "different-subset", "different-superset", "different-absolute", "different-one-step"):
            if not need:
                return None
            # every kind of horizon other than the one the forecaster was fitted with: shifted, a part of it, more than it, the
            # same steps counted from another origin, a single step of it
            from sktime.forecasting.base import ForecastingHorizon
            other = {"different": [h + 1 for h in cx.fh], "different-subset": list(cx.fh)[1:] or [cx.fh[0] + 1], "different-superset": list(cx.fh) + [max(cx.fh) + 1],
                     "different-absolute": ForecastingHorizon([int(cx.y.index[-1]) + h + 1 for h in cx.fh], is_relative=False), "different-one-step": [cx.fh[-1]] if len(cx.fh) > 1 else [cx.fh[0] + 2]}[cls]
            bad = lambda: f.predict(other)  # noqa
        else:
            bad = lambda: f.predict(cx.bad_fh(cls))  # noqa
        twin = lambda: f.predict(cx.fh)  # noqa
        return bad, twin, None
    return run


def _update_cell(fname, cls):
    def run(cx):
        spec = FORECASTERS[fname]
        f = zoo.build(spec)
        f.fit(cx.y.copy(), fh=cx.fh)
        if cls == "unsorted":
            yb = pd.Series(cx.ynew.values, index=pd.Index(list(cx.ynew.index)[::-1]))
        elif cls == "dataframe":
            yb = pd.DataFrame({"a": cx.ynew.values, "b": cx.ynew.values}, index=cx.ynew.index)
        else:
            yb = cx.ynew.values.copy()
        g = zoo.build(spec)
        g.fit(cx.y.copy(), fh=cx.fh)
        return (lambda: f.update(yb)), (lambda: g.update(cx.ynew.copy())), None
    return run


def _update_X_cell(fname, defect, up):
    """a forecaster fitted with exogenous data is updated with new observations and exogenous rows that do not belong to them"""
    def run(cx):
        spec = FORECASTERS[fname]
        f, g = zoo.build(spec), zoo.build(spec)
        f.fit(cx.y.copy(), cx.X.copy(), fh=cx.fh)
        g.fit(cx.y.copy(), cx.X.copy(), fh=cx.fh)
        Xn = pd.DataFrame({c: np.arange(len(cx.ynew), dtype=float) + 1.0 for c in cx.X.columns}, index=cx.ynew.index)
        Xb = {"empty": Xn.iloc[:0], "shifted": pd.DataFrame(Xn.values, columns=Xn.columns, index=Xn.index + 1), "shorter": Xn.iloc[:-1],
              "longer": pd.DataFrame(np.vstack([Xn.values, Xn.values[-1:]]), columns=Xn.columns, index=pd.RangeIndex(Xn.index[0], Xn.index[-1] + 2))}[defect]
        c0 = f.cutoff

        def bad():
            try:
                return f.update(cx.ynew.copy(), Xb, update_params=up)
            finally:
                run.cutoff_moved = f.cutoff != c0
        return bad, (lambda: g.update(cx.ynew.copy(), Xn.copy(), update_params=up)), None
    return run


def _fit_missing_fh(fname):
    def run(cx):
        f, g = zoo.build(FORECASTERS[fname]), zoo.build(FORECASTERS[fname])
        return (lambda: f.fit(cx.y.copy())), (lambda: g.fit(cx.y.copy(), fh=cx.fh)), f
    return run


def _refit_missing_fh(fname):
    """the same on an instance that was fitted before: the earlier horizon is no substitute, and another valid horizon is accepted"""
    def run(cx):
        f, g = zoo.build(FORECASTERS[fname]), zoo.build(FORECASTERS[fname])
        f.fit(cx.y.copy(), fh=cx.fh)
        g.fit(cx.y.copy(), fh=cx.fh)
        other = [h + 1 for h in cx.fh]
        return (lambda: f.fit(cx.y.copy())), (lambda: g.fit(cx.y.copy(), fh=other).predict()), f
    return run


def _setting_cell(kind, param, value):
    def run(cx):
        from sktime.forecasting.compose import make_reduction
        from sktime.forecasting.naive import NaiveForecaster
        from sktime.forecasting.model_selection import (CutoffSplitter, ExpandingWindowSplitter, SingleWindowSplitter, SlidingWindowSplitter)
        if kind == "naive":
            base = {"strategy": "mean", "window_length": 4, "sp": 2}
            f = NaiveForecaster(**dict(base, **{param: value}))
            g = NaiveForecaster(**base)
            return (lambda: f.fit(cx.y.copy())), (lambda: g.fit(cx.y.copy())), f
        if kind == "naive-window-too-long":
            f = NaiveForecaster(strategy=value, window_length=cx.n + 3)
            g = NaiveForecaster(strategy=value, window_length=cx.n - 2)
            return (lambda: f.fit(cx.y.copy())), (lambda: g.fit(cx.y.copy())), f
        if kind == "naive-season-too-long":
            # the seasonal period is the window of the seasonal last-value strategy: one that is longer than the series does not fit
            sp = {"by-one": cx.n + 1, "by-some": cx.n + 3, "twice": 2 * cx.n}[value]
            f = NaiveForecaster(strategy="last", sp=sp)
            g = NaiveForecaster(strategy="last", sp=cx.n - 2)
            return (lambda: f.fit(cx.y.copy())), (lambda: g.fit(cx.y.copy())), f
        if kind == "seasonal-period-in-effect":
            # every forecaster configuration in which the seasonal period is used (not the ones that document it as ignored)
            from sktime.forecasting.compose import TransformedTargetForecaster
            from sktime.forecasting.ets import AutoETS
            from sktime.forecasting.exp_smoothing import ExponentialSmoothing
            from sktime.forecasting.theta import ThetaForecaster
            from sktime.transformations.series.detrend import ConditionalDeseasonalizer, Deseasonalizer
            mk = {"theta": lambda sp: ThetaForecaster(sp=sp), "es-seasonal": lambda sp: ExponentialSmoothing(seasonal="add", sp=sp),
                  "ets-seasonal": lambda sp: AutoETS(seasonal="add", sp=sp), "naive-last": lambda sp: NaiveForecaster(strategy="last", sp=sp),
                  "pipeline-deseasonalizer": lambda sp: TransformedTargetForecaster([("d", Deseasonalizer(sp=sp)), ("f", NaiveForecaster())]),
                  "pipeline-conditional-deseasonalizer": lambda sp: TransformedTargetForecaster([("d", ConditionalDeseasonalizer(sp=sp)), ("f", NaiveForecaster())])}[param]
            yy = cx.y - float(cx.y.min()) + 10.0        # strictly positive: the multiplicative deseasonaliser inside the theta forecaster needs it
            def bad():
                f = mk(value)                 # some of the constructors validate already
                run.obj = f
                return f.fit(yy.copy())
            return bad, (lambda: mk(2).fit(yy.copy())), None
        if kind == "reduce":
            reg = zoo.build_regressor("lin")
            base = {"strategy": "recursive", "window_length": 3, "scitype": "tabular-regressor"}
            kw = dict(base, **{param: value})
            def bad():
                f = make_reduction(reg, **kw)
                run.obj = f
                return f.fit(cx.y.copy(), fh=[1, 2])
            def twin():
                return make_reduction(reg, **base).fit(cx.y.copy(), fh=[1, 2])
            return bad, twin, None
        if kind == "reduce-window-too-long":
            reg = zoo.build_regressor("lin")
            f = make_reduction(reg, strategy=value, window_length=cx.n)      # window + first step exceeds the series for every strategy
            g = make_reduction(reg, strategy=value, window_length=cx.n - 4)
            return (lambda: f.fit(cx.y.copy(), fh=[1, 2])), (lambda: g.fit(cx.y.copy(), fh=[1, 2])), f
        if kind in ("sliding", "expanding"):
            cls = SlidingWindowSplitter if kind == "sliding" else ExpandingWindowSplitter
            base = {"fh": [1, 2], "window_length": 5, "step_length": 2} if kind == "sliding" else {"fh": [1, 2], "initial_window": 5, "step_length": 2}
            kw = dict(base, **{param: value})
            op = [lambda cv: list(cv.split(cx.y)), lambda cv: cv.get_cutoffs(cx.y), lambda cv: cv.get_n_splits(cx.y)][run.variant % (3 if param == "step_length" or param == "fh" else 1)]
            return (lambda: op(cls(**kw))), (lambda: op(cls(**base))), None
        if kind == "single":
            base = {"fh": [1, 2], "window_length": 5}
            kw = dict(base, **{param: value})
            return (lambda: list(SingleWindowSplitter(**kw).split(cx.y))), (lambda: list(SingleWindowSplitter(**base).split(cx.y))), None
        if kind == "cutoff":
            base = {"cutoffs": np.array([8, 12]), "fh": [1, 2], "window_length": 4}
            kw = dict(base, **{param: value})
            return (lambda: list(CutoffSplitter(**kw).split(cx.y))), (lambda: list(CutoffSplitter(**base).split(cx.y))), None
        if kind == "window-does-not-fit":
            cls = SlidingWindowSplitter if value == "sliding" else ExpandingWindowSplitter
            k = "window_length" if value == "sliding" else "initial_window"
            # every window that just does not fit: n - max(fh) < window <= n - 1, for contiguous and gapped horizons
            fh = [[1, 3], [2, 4], [3], [1, 2, 3], [2, 5]][int(cx.rng.integers(0, 5))]
            wl = cx.n - max(fh) + 1 + int(cx.rng.integers(0, max(fh) - 1)) if max(fh) > 1 else cx.n
            ops = [lambda cv: list(cv.split(cx.y)), lambda cv: (list(cv.split(cx.y)), cv.get_n_splits(cx.y))[0]]
            op = ops[run.variant % 2]
            if value == "sliding-initial":
                # a regular window that fits, a longer initial window that just does not
                small = max(2, (cx.n - max(fh)) // 2)
                return (lambda: op(SlidingWindowSplitter(fh=fh, window_length=small, initial_window=wl))), \
                       (lambda: op(SlidingWindowSplitter(fh=fh, window_length=small, initial_window=cx.n - max(fh)))), None
            return (lambda: op(cls(fh=fh, **{k: wl}))), (lambda: op(cls(fh=fh, **{k: cx.n - max(fh)}))), None
        raise ValueError(kind)
    run.variant = 0
    return run


def _composite_cell(kind):
    def run(cx):
        from sklearn.linear_model import LinearRegression
        from sktime.forecasting.compose import EnsembleForecaster, MultiplexForecaster, StackingForecaster, TransformedTargetForecaster
        from sktime.forecasting.naive import NaiveForecaster
        from sktime.forecasting.trend import PolynomialTrendForecaster
        from sktime.transformations.series.detrend import Detrender
        N, P = NaiveForecaster, PolynomialTrendForecaster
        good = [("a", N()), ("b", P())]
        mk = {
            "ensemble": lambda m: EnsembleForecaster(m),
            "multiplex": lambda m: MultiplexForecaster(m, selected_forecaster=m[0][0] if m else "a"),
            "stack": lambda m: StackingForecaster(m, final_regressor=LinearRegression()),
        }
        which, defect = kind.split(":")
        if which in mk:
            # repeated names: next to each other, apart (another component in between), and among more than three components
            apart = [[("a", N()), ("b", P()), ("a", N(strategy="mean"))], [("a", N()), ("b", P()), ("c", N(strategy="drift")), ("a", P(degree=2))],
                     [("b", N()), ("a", P()), ("c", N(strategy="mean")), ("a", N(strategy="drift")), ("d", P(degree=2))]][int(cx.rng.integers(0, 3))]
            bad_members = {"empty": [], "dup-names": [("a", N()), ("a", P())], "dup-names-apart": apart, "dunder-name": [("a__b", N()), ("b", P())],
                           "name-clashes-param": [("forecasters", N()), ("b", P())], "non-forecaster": [("a", N()), ("b", LinearRegression())],
                           "not-a-list": (("a", N()), ("b", P()))}
            if defect in bad_members:
                f = mk[which](bad_members[defect])
            elif defect == "unknown-selection":
                f = MultiplexForecaster(good, selected_forecaster="zzz")
            elif defect == "unknown-aggfunc":
                f = EnsembleForecaster(good, aggfunc="mode")
                g = EnsembleForecaster([("a", N()), ("b", P())])
                return (lambda: f.fit(cx.y.copy(), fh=cx.fh).predict()), (lambda: g.fit(cx.y.copy(), fh=cx.fh).predict()), None
            elif defect == "non-regressor-meta":
                f = StackingForecaster(good, final_regressor=N())
            else:
                raise ValueError(kind)
            g = mk[which]([("a", N()), ("b", P())])
            return (lambda: f.fit(cx.y.copy(), fh=cx.fh)), (lambda: g.fit(cx.y.copy(), fh=cx.fh)), f
        # pipeline
        goodp = [("t", Detrender(P())), ("f", N())]
        badp = {"dup-names": [("t", Detrender(P())), ("t", N())], "dup-names-apart": [("x", Detrender(P())), ("t", Detrender(P(degree=2))), ("x", N())], "dunder-name": [("t__x", Detrender(P())), ("f", N())],
                "name-clashes-param": [("steps", Detrender(P())), ("f", N())], "non-transformer-step": [("t", LinearRegression()), ("f", N())],
                "last-not-forecaster": [("t", Detrender(P())), ("f", Detrender(P()))], "forecaster-as-step": [("t", N()), ("f", N())]}[defect]
        f, g = TransformedTargetForecaster(badp), TransformedTargetForecaster(goodp)
        return (lambda: f.fit(cx.y.copy(), fh=cx.fh)), (lambda: g.fit(cx.y.copy(), fh=cx.fh)), f
    return run


def _evaluate_cell(defect):
    def run(cx):
        from sktime.forecasting.model_evaluation import evaluate
        from sktime.forecasting.model_selection import SlidingWindowSplitter
        from sktime.forecasting.naive import NaiveForecaster
        cv = SlidingWindowSplitter(fh=[1, 2], window_length=10, step_length=4)
        f, fb = NaiveForecaster(), NaiveForecaster()          # fb: the forecaster of the refused call, must come back unfitted
        kw = {"forecaster": f, "cv": cv, "y": cx.y.copy()}
        if defect.startswith("y:"):
            bad = dict(kw, y=cx.bad_y(defect[2:]))
        elif defect.startswith("strategy"):
            # an unknown strategy name, whatever the number of folds the splitter yields (several, exactly one)
            name_ = ["retrain", "Refit", "", None, 1, "update "][int(cx.rng.integers(0, 6))]
            if defect == "strategy:single-split":
                from sktime.forecasting.model_selection import SingleWindowSplitter
                cv = SingleWindowSplitter(fh=[1, 2], window_length=10)
            elif defect == "strategy:window-fits-once":
                cv = SlidingWindowSplitter(fh=[1, 2], window_length=cx.n - 2, step_length=3)
            kw = dict(kw, cv=cv)
            bad = dict(kw, strategy=name_)
        elif defect == "cv-not-splitter":
            from sklearn.model_selection import KFold
            bad = dict(kw, cv=KFold(2))
        elif defect == "scoring-not-callable":
            bad = dict(kw, scoring="mape")
        elif defect == "start_with_window-false":
            bad = dict(kw, cv=SlidingWindowSplitter(fh=[1, 2], window_length=10, step_length=4, start_with_window=False))
        elif defect.startswith("X-index"):
            bad = dict(kw, X=cx.bad_X(defect[8:] or "shifted"))
            kw = dict(kw, X=cx.X.copy())
        bad = dict(bad, forecaster=fb)
        return (lambda: evaluate(**bad)), (lambda: evaluate(**kw)), fb
    return run


def _tts_cell(defect):
    def run(cx):
        from sktime.forecasting.base import ForecastingHorizon
        from sktime.forecasting.model_selection import temporal_train_test_split as tts
        if defect.startswith("y:"):
            return (lambda: tts(cx.bad_y(defect[2:]), fh=ForecastingHorizon([1, 2, 3]))), (lambda: tts(cx.y.copy(), fh=ForecastingHorizon([1, 2, 3]))), None
        if defect == "fh-and-test_size":
            return (lambda: tts(cx.y.copy(), fh=[1, 2], test_size=3)), (lambda: tts(cx.y.copy(), fh=[1, 2])), None
        if defect == "fh-in-sample":
            return (lambda: tts(cx.y.copy(), fh=[-1, 1])), (lambda: tts(cx.y.copy(), fh=[1, 2])), None
        if defect.startswith("X-index"):
            Xb = cx.bad_X(defect[8:] or "shifted")
            return (lambda: tts(cx.y.copy(), Xb, fh=[1, 2])), (lambda: tts(cx.y.copy(), cx.X.copy(), fh=[1, 2])), None
        if defect.startswith("fh:"):
            return (lambda: tts(cx.y.copy(), fh=cx.bad_fh(defect[3:]))), (lambda: tts(cx.y.copy(), fh=[1, 2])), None
    return run


def _fhctor_cell(cls):
    def run(cx):
        from sktime.forecasting.base import ForecastingHorizon
        from sktime.utils.validation.forecasting import check_fh
        if cls.startswith("empty"):
            # the horizon class itself wraps empty index values; emptiness is rejected where a horizon enters the library (check_fh)
            return (lambda: check_fh(cx.bad_fh(cls))), (lambda: check_fh([1, 2])), None
        return (lambda: ForecastingHorizon(cx.bad_fh(cls))), (lambda: ForecastingHorizon([1, 2])), None
    return run


def _tune_cell(defect):
    def run(cx):
        from sktime.forecasting.model_selection import ForecastingGridSearchCV, SlidingWindowSplitter
        from sktime.forecasting.naive import NaiveForecaster
        cv = SlidingWindowSplitter(fh=[1], window_length=10, step_length=5)
        grid = {"strategy": ["last", "mean"]}
        g = ForecastingGridSearchCV(NaiveForecaster(), cv=cv, param_grid=grid)
        if defect.startswith("y:"):
            f = ForecastingGridSearchCV(NaiveForecaster(), cv=cv, param_grid=grid)
            return (lambda: f.fit(cx.bad_y(defect[2:]))), (lambda: g.fit(cx.y.copy())), f
        if defect == "grid-scalar":
            f = ForecastingGridSearchCV(NaiveForecaster(), cv=cv, param_grid={"strategy": "last"})
        elif defect == "grid-unknown-param":
            f = ForecastingGridSearchCV(NaiveForecaster(), cv=cv, param_grid={"nonexistent": [1, 2]})
        elif defect == "scoring-not-callable":
            f = ForecastingGridSearchCV(NaiveForecaster(), cv=cv, param_grid=grid, scoring="mape")
        return (lambda: f.fit(cx.y.copy())), (lambda: g.fit(cx.y.copy())), f
    return run


CELLS = []


def _add(name, fn):
    CELLS.append((name, fn))


for _f in FORECASTERS:
    for _c in Y_CLASSES:
        _add("fit:%s:y:%s" % (_f, _c), _fit_cell(_f, "y", _c))
    for _c in FH_CLASSES:
        _add("fit:%s:fh:%s" % (_f, _c), _fit_cell(_f, "fh", _c))
        _add("predict:%s:fh:%s" % (_f, _c), _predict_cell(_f, _c))
    _add("predict:%s:fh:missing" % _f, _predict_cell(_f, "missing"))
    for _d in ("different", "different-subset", "different-superset", "different-absolute", "different-one-step"):
        _add("predict:%s:fh:%s" % (_f, _d), _predict_cell(_f, _d))
    if _f in TAKES_X:
        for _xc in ("shifted", "longer", "longer-front", "shorter"):
            _add("fit:%s:X:index-differs:%s" % (_f, _xc), _fit_cell(_f, "X", _xc))
    for _c in ("unsorted", "dataframe", "ndarray"):
        _add("update:%s:y:%s" % (_f, _c), _update_cell(_f, _c))
    if _f in ("naive", "naive-seasonal", "reduce-rec", "pipeline"):
        for _c in ("empty", "shifted", "shorter", "longer"):
            for _up in (True, False):
                _add("update:%s:X:%s:update_params=%s" % (_f, _c, _up), _update_X_cell(_f, _c, _up))
for _f in ("reduce-dir", "stack"):
    _add("fit:%s:fh:missing" % _f, _fit_missing_fh(_f))
    _add("refit:%s:fh:missing" % _f, _refit_missing_fh(_f))
for _v in BADINT:
    _add("setting:naive:window_length:%r" % (_v,), _setting_cell("naive", "window_length", _v))
    _add("setting:naive:sp:%r" % (_v,), _setting_cell("naive", "sp", _v))
    _add("setting:reduce:window_length:%r" % (_v,), _setting_cell("reduce", "window_length", _v))
    for _k, _ps in (("sliding", ["window_length", "step_length", "initial_window"]), ("expanding", ["initial_window", "step_length"]), ("single", ["window_length"]), ("cutoff", ["window_length"])):
        for _p in _ps:
            _add("setting:%s:%s:%r" % (_k, _p, _v), _setting_cell(_k, _p, _v))
for _w in ("theta", "es-seasonal", "ets-seasonal", "naive-last", "pipeline-deseasonalizer", "pipeline-conditional-deseasonalizer"):
    for _v in BADINT:
        _add("setting:seasonal-period:%s:%r" % (_w, _v), _setting_cell("seasonal-period-in-effect", _w, _v))
_add("setting:naive:strategy:unknown", _setting_cell("naive", "strategy", "median"))
_add("setting:reduce:strategy:unknown", _setting_cell("reduce", "strategy", "iterated"))
_add("setting:reduce:scitype:unknown", _setting_cell("reduce", "scitype", "tabular"))
for _s in ("mean", "drift"):
    _add("setting:naive:window-too-long:%s" % _s, _setting_cell("naive-window-too-long", None, _s))
for _s in ("by-one", "by-some", "twice"):
    _add("setting:naive:seasonal-period-longer-than-series:%s" % _s, _setting_cell("naive-season-too-long", None, _s))
for _s in ("recursive", "direct", "multioutput", "dirrec"):
    _add("setting:reduce:window-too-long:%s" % _s, _setting_cell("reduce-window-too-long", None, _s))
for _s in ("sliding", "expanding", "sliding-initial"):
    _add("setting:splitter:window-does-not-fit:%s" % _s, _setting_cell("window-does-not-fit", None, _s))
for _k in ("sliding", "expanding", "single", "cutoff"):
    for _c in ("dup", "empty", "frac", "str", "tuple", "empty-fh-object", "empty-array", "dup-index-sorted"):
        _add("setting:%s:fh:%s" % (_k, _c), (lambda k, c: (lambda cx: _setting_cell(k, "fh", cx.bad_fh(c))(cx)))(_k, _c))
_add("setting:cutoff:cutoffs:list", _setting_cell("cutoff", "cutoffs", [8, 12]))
_add("setting:cutoff:cutoffs:empty", _setting_cell("cutoff", "cutoffs", np.array([], dtype=int)))
_add("setting:cutoff:cutoffs:beyond-series", (lambda cx: _setting_cell("cutoff", "cutoffs", np.array([8, cx.n + 1]))(cx)))
_add("setting:cutoff:cutoffs:test-window-beyond-series", (lambda cx: _setting_cell("cutoff", "cutoffs", np.array([8, cx.n - 2]))(cx)))
for _d in ("ensemble:dup-names-apart", "multiplex:dup-names-apart", "stack:dup-names-apart", "pipeline:dup-names-apart", "ensemble:empty", "ensemble:dup-names", "ensemble:dunder-name", "ensemble:name-clashes-param", "ensemble:non-forecaster", "ensemble:not-a-list", "ensemble:unknown-aggfunc",
           "multiplex:dup-names", "multiplex:non-forecaster", "multiplex:unknown-selection", "multiplex:dunder-name", "stack:empty", "stack:dup-names",
           "stack:non-forecaster", "stack:non-regressor-meta", "stack:name-clashes-param", "pipeline:dup-names", "pipeline:dunder-name", "pipeline:name-clashes-param",
           "pipeline:non-transformer-step", "pipeline:last-not-forecaster", "pipeline:forecaster-as-step"):
    _add("composite:" + _d, _composite_cell(_d))
for _d in ["y:" + c for c in Y_CLASSES] + ["strategy", "strategy:single-split", "strategy:window-fits-once", "cv-not-splitter", "scoring-not-callable", "start_with_window-false", "X-index", "X-index:longer", "X-index:longer-front", "X-index:shorter"]:
    _add("evaluate:" + _d, _evaluate_cell(_d))
for _d in ["y:" + c for c in Y_CLASSES if c != "dataframe"] + ["fh-and-test_size", "fh-in-sample", "X-index", "X-index:longer", "X-index:longer-front", "X-index:shorter"] + ["fh:" + c for c in ("dup", "empty", "frac", "str", "tuple", "empty-fh-object", "empty-abs-fh-object", "empty-array", "dup-index-sorted")]:
    _add("train_test_split:" + _d, _tts_cell(_d))
for _c in ("dup", "empty", "frac", "str", "tuple", "set", "dup-array", "2d", "nan", "empty-fh-object", "empty-abs-fh-object", "empty-array", "empty-index", "dup-index-sorted", "dup-index-constant"):
    _add("horizon:" + _c, _fhctor_cell(_c))
for _d in ["y:" + c for c in Y_CLASSES] + ["grid-scalar", "grid-unknown-param", "scoring-not-callable"]:
    _add("tune:" + _d, _tune_cell(_d))


def cases(tier, seed):
    rng = np.random.default_rng([seed, 20])
    reps = 6 if tier == "quick" else 150
    for r in range(reps):
        for i, (name, _) in enumerate(CELLS):
            yield {"cell": name, "i": i, "cseed": int(rng.integers(0, 2 ** 31)), "rep": r}


def run_case(case, ctx):
    import warnings
    warnings.simplefilter("ignore")
    name, fn = CELLS[case["i"]]
    if name != case["cell"]:
        fn = dict(CELLS)[case["cell"]]
    cx = Cx(case["cseed"])
    if hasattr(fn, "variant"):
        fn.variant = case["rep"]
        fn.obj = None
    out = fn(cx)
    if out is None:
        ctx.tag("cell-not-applicable")
        return
    bad, twin, obj = out
    try:
        res = bad()
    except OKEXC as e:
        ctx.check("rejected", True, "")
        ctx.event(cell=name, rejected_by=type(e).__name__, message=str(e)[:80])
    except Exception as e:  # noqa
        from vmon.core import exc_sig
        ctx.check("rejected", False, "malformed:%s:raises-%s" % (name, type(e).__name__),
                  "malformed input raised %s instead of ValueError / TypeError / NotImplementedError" % type(e).__name__, exception=exc_sig(e))
    else:
        ctx.check("rejected", False, "malformed:%s:accepted" % name, "malformed input was accepted and produced a result", result=repr(res)[:200])
    if obj is None:
        obj = getattr(fn, "obj", None)        # estimators that the cell builds inside the offending call
    if obj is not None and hasattr(obj, "is_fitted"):
        ctx.check("no-fitted-state", not obj.is_fitted, "malformed:%s:leaves-fitted-state" % name, "is_fitted is true after a rejected fit")
    else:
        ctx.seen("no-fitted-state", 0)
    try:
        twin()
        ctx.check("twin-accepted", True, "")
    except Exception as e:  # noqa
        from vmon.core import exc_sig, env_signature
        env = env_signature(e)
        if env:
            ctx.env_skip(env)
        else:
            ctx.check("twin-accepted", False, "valid-twin:%s:rejected" % name, "the valid twin of the malformed call was rejected: %r" % e, exception=exc_sig(e))
    ctx.tag("group:" + name.split(":")[0])
    ctx.nontrivial = True
