"""C18 - time-series files round-trip and all file formats parse to the same panel.

Round-trip monitor (write .ts -> load), cross-format metamorphic monitor (.ts / .arff / .tsv of
the same bundled data set) and a concatenation reference for the bundled loaders.  The
"precision the writer prints" is obtained by parsing the written text with float() in the
harness, independently of the loader."""
import os
import shutil

import numpy as np
import pandas as pd

PID = "C18"
LEVEL = "exploration"
RULE = ("cases = round trips (n instances, series length, magnitude family, label set or none, writer options: comment, equal-length "
        "header, missing-value token with NaNs) + every bundled data set x {train, test, None} x {return_X_y, single frame} + the data "
        "sets shipped in three formats; non-trivial: >= 2 instances and >= 2 time points (round trip) or any data-set case; "
        "distinct = distinct case dict")
ANCHOR_FILES = ["sktime/utils/data_io.py", "sktime/datasets/base.py"]
REQUIRED_REACH = ["data_io.py:write_dataframe_to_tsfile", "data_io.py:load_from_tsfile_to_dataframe", "data_io.py:load_from_arff_to_dataframe",
                  "data_io.py:load_from_ucr_tsv_to_dataframe", "base.py:_load_dataset"]
REQUIRED_MONITORS = ["roundtrip.structure", "roundtrip.values", "roundtrip.labels", "cross-format", "loader.concat", "loader.forms"]
NOT_COVERED = ["multivariate and unequal-length panels through the writer (statement: univariate equal-length)", "timestamped .ts files"]
ASSUMPTIONS = ["printed precision = float() of the tokens in the written file, parsed by the harness"]
JOBS = {"quick": 4, "thorough": 16}
DATASETS = ["ArrowHead", "GunPoint", "ItalyPowerDemand", "BasicMotions", "JapaneseVowels", "OSULeaf", "ACSF1", "UnitTest", "PLAID"]
LOADERS = {"ArrowHead": "load_arrow_head", "GunPoint": "load_gunpoint", "ItalyPowerDemand": "load_italy_power_demand", "BasicMotions": "load_basic_motions",
           "JapaneseVowels": "load_japanese_vowels", "OSULeaf": "load_osuleaf", "ACSF1": "load_acsf1"}
LABELSETS = [None, ["1", "2"], ["a", "b", "c"], ["Up", "DOWN", "mid"], ["-1", "10", "7"], ["x"]]


def cases(tier, seed):
    for ds in DATASETS:
        yield {"kind": "dataset", "name": ds}
    for ds in ("ArrowHead", "GunPoint", "BasicMotions"):          # the last one is multivariate and ships .ts / .arff only
        yield {"kind": "formats", "name": ds}
    rng = np.random.default_rng([seed, 18])
    for i in range(60 if tier == "quick" else 2500):
        yield {"kind": "formats-generated", "ni": int(rng.integers(1, 9)), "nt": int(rng.integers(2, 20)), "family": ["ints", "relative", "magnitudes", "plain"][i % 4],
               "labelkind": ["str", "int"][int(rng.integers(0, 2))], "final_newline": bool(rng.random() < 0.5), "dseed": int(rng.integers(0, 2 ** 31)), "i": i}
    n = 350 if tier == "quick" else 10000
    for i in range(n):
        yield {"kind": "roundtrip", "ni": int(rng.integers(1, 21)), "nt": int(rng.integers(1, 61)),
               "family": ["unit", "tiny", "huge", "negative", "ints", "mixedsign"][int(rng.integers(0, 6))],
               "labels": int(rng.integers(0, len(LABELSETS))), "comment": bool(rng.random() < 0.3), "equal": bool(rng.random() < 0.4),
               "nan": [None, None, "NaN", "?"][int(rng.integers(0, 4))], "rowidx": ["default", "default", "permuted", "offset", "strings"][int(rng.integers(0, 5))], "dseed": int(rng.integers(0, 2 ** 31)), "i": i}


def _formats_generated(case, ctx):
    """one generated univariate equal-length panel written as .ts (library writer), .arff and UCR .tsv (plain text, written here):
    the three loaders must return the same values and labels, exactly as written"""
    from sktime.utils.data_io import (load_from_arff_to_dataframe, load_from_tsfile_to_dataframe, load_from_ucr_tsv_to_dataframe,
                                      write_dataframe_to_tsfile)
    rng = np.random.default_rng([case["dseed"], 1818])
    ni, nt = case["ni"], case["nt"]
    fam = case["family"]
    if fam == "ints":
        A = rng.integers(-500, 500, size=(ni, nt)).astype(float)
    elif fam == "relative":
        A = np.cumsum(rng.normal(0, 1, size=(ni, nt)), axis=1)
        A = A - A[:, :1]                  # every series starts at exactly 0 (written as "0")
    elif fam == "magnitudes":
        A = rng.normal(0, 1, size=(ni, nt)) * 10.0 ** rng.integers(-40, 4, size=(ni, nt))
        A[:, 0] = np.round(A[:, 0])
    else:
        A = rng.normal(0, 10, size=(ni, nt))
    labels = [["a", "b", "c"][i % 3] for i in range(ni)] if case["labelkind"] == "str" else [str(1 + i % 2) for i in range(ni)]
    fmt = lambda v: ("%d" % v) if float(v).is_integer() and abs(v) < 1e15 else repr(float(v))  # noqa: integers without a decimal point
    base = os.path.join(os.environ.get("VMON_HOME", "/verif"), ".cache", "c18", "gen-%d-%d" % (os.getpid(), case["i"]))
    shutil.rmtree(base, ignore_errors=True)
    os.makedirs(base)
    try:
        X = pd.DataFrame({"dim_0": [pd.Series(A[i]) for i in range(ni)]})
        write_dataframe_to_tsfile(X, base, problem_name="Gen", class_label=sorted(set(labels)), class_value_list=np.array(labels), equal_length=True, series_length=nt)
        ts_path = os.path.join(base, "Gen", "Gen_transform.ts")
        with open(os.path.join(base, "Gen.tsv"), "w") as fo:
            fo.write("\n".join("\t".join([labels[i]] + [fmt(v) for v in A[i]]) for i in range(ni)) + ("\n" if case["final_newline"] else ""))
        with open(os.path.join(base, "Gen.arff"), "w") as fo:
            fo.write("@relation Gen\n" + "".join("@attribute att%d numeric\n" % t for t in range(nt)) + "@attribute target {%s}\n@data\n" % ",".join(sorted(set(labels))))
            fo.write("\n".join(",".join([fmt(v) for v in A[i]] + [labels[i]]) for i in range(ni)) + ("\n" if case["final_newline"] else ""))
        got = {}
        for name, loader, path in (("ts", load_from_tsfile_to_dataframe, ts_path), ("arff", load_from_arff_to_dataframe, os.path.join(base, "Gen.arff")),
                                   ("tsv", load_from_ucr_tsv_to_dataframe, os.path.join(base, "Gen.tsv"))):
            ok, r = ctx.call("formats-generated:%s-exception" % name, loader, path)
            if ok:
                got[name] = r
        for name, (Xg, yg) in got.items():
            V = np.array([np.asarray(Xg.iloc[i, 0], dtype=float) for i in range(len(Xg))]) if len(Xg) == ni else None
            # equal up to the last bits (pandas' default text-to-float conversion and the writer's repr are not exactly round-tripping)
            # .arff / .tsv are written here with repr (exact up to the last bits of the text conversion); the library's .ts writer prints a fixed
            # number of decimals: same allowance as in the round-trip cases (relative to the series' magnitude)
            rt = 1e-12
            tolm = (2e-6 * np.maximum(np.abs(A).max(axis=1, keepdims=True), 1e-300) + 5e-7) if name == "ts" else rt * np.abs(A)
            same = V is not None and V.shape == A.shape and bool(np.all(np.abs(V - A) <= tolm))
            ctx.check("cross-format", same, "cross-format:generated:%s-values-differ-from-what-the-file-holds" % name,
                      "the .%s loader does not return the values written in the file" % name, family=fam,
                      first_difference=None if V is None or V.shape != A.shape else [(int(i), int(t), float(V[i, t]), float(A[i, t])) for i, t in zip(*np.nonzero(np.abs(V - A) > tolm))][:3])
            ctx.check("cross-format", [str(v) for v in yg] == labels, "cross-format:generated:%s-labels-differ" % name, "the .%s loader does not return the labels written in the file" % name,
                      got=[str(v) for v in yg][:6], expected=labels[:6])
        # the same panel as a problem directory of its own (<dir>/<Name>/<Name>_TRAIN.ts, _TEST.ts) read by the repository loader with
        # extract_path=<dir>: what comes back is what that directory holds - also when the name is that of a problem bundled with the package
        if ni >= 4:
            from sktime.datasets.base import load_UCR_UEA_dataset
            pname = ["Gen", "GunPoint", "ItalyPowerDemand", "ArrowHead"][case["i"] % 4]
            ext = os.path.join(base, "ext")
            cut = ni // 2
            for part, rows in (("TRAIN", list(range(cut))), ("TEST", list(range(cut, ni)))):
                tmp = os.path.join(base, "w_" + part)
                Xp = pd.DataFrame({"dim_0": [pd.Series(A[i]) for i in rows]})
                write_dataframe_to_tsfile(Xp, tmp, problem_name=pname, class_label=sorted(set(labels)), class_value_list=np.array([labels[i] for i in rows]),
                                          equal_length=True, series_length=nt)
                os.makedirs(os.path.join(ext, pname), exist_ok=True)
                shutil.move(os.path.join(tmp, pname, pname + "_transform.ts"), os.path.join(ext, pname, "%s_%s.ts" % (pname, part)))
            for split, rows in ((None, list(range(ni))), ("train", list(range(cut))), ("test", list(range(cut, ni)))):
                ok, r = ctx.call("dataset:own-directory-exception", load_UCR_UEA_dataset, pname, split=split, return_X_y=True, extract_path=ext)
                if not ok:
                    continue
                Xg, yg = r
                V = np.array([np.asarray(Xg.iloc[i, 0], dtype=float) for i in range(len(Xg))]) if len(Xg) == len(rows) else None
                E = A[rows]
                tolm = 2e-6 * np.maximum(np.abs(E).max(axis=1, keepdims=True), 1e-300) + 5e-7
                ctx.check("loader.concat", V is not None and V.shape == E.shape and bool(np.all(np.abs(V - E) <= tolm)) and [str(v) for v in yg] == [labels[i] for i in rows],
                          "dataset:own-directory:loader-returns-other-data-than-the-directory-holds", "load_UCR_UEA_dataset(name, extract_path=dir) does not return the instances "
                          "(training then test) stored under dir/name", name=pname, split=split, got_instances=len(Xg), expected_instances=len(rows),
                          got_length=None if not len(Xg) else int(len(Xg.iloc[0, 0])), expected_length=nt)
            ctx.tag("own-directory:" + ("bundled-name" if pname != "Gen" else "new-name"))
        ctx.event(kind="formats-generated", ni=ni, nt=nt, family=fam, loaders=sorted(got))
        ctx.tag("generated:" + fam)
        ctx.nontrivial = len(got) == 3
    finally:
        shutil.rmtree(base, ignore_errors=True)


def run_case(case, ctx):
    import warnings
    warnings.simplefilter("ignore")
    if case["kind"] == "roundtrip":
        return _roundtrip(case, ctx)
    if case["kind"] == "formats-generated":
        return _formats_generated(case, ctx)
    if case["kind"] == "formats":
        return _formats(case, ctx)
    return _dataset(case, ctx)


def _parse_ts_text(path, has_labels):
    """independent reader of the written file: returns (list of float lists, list of labels)"""
    rows, labels = [], []
    started = False
    for line in open(path, encoding="utf-8"):
        s = line.strip()
        if not s or s.startswith("#"):
            continue
        if s.lower().startswith("@data"):
            started = True
            continue
        if not started:
            continue
        parts = s.split(":")
        if has_labels:
            labels.append(parts[-1].strip())
            parts = parts[:-1]
        toks = [t.strip() for t in parts[0].split(",")]
        rows.append([float("nan") if t in ("?", "NaN", "nan") else float(t) for t in toks])
    return rows, labels


def _roundtrip(case, ctx):
    from sktime.utils.data_io import load_from_tsfile_to_dataframe, write_dataframe_to_tsfile
    rng = np.random.default_rng([case["dseed"], 1818])
    ni, nt = case["ni"], case["nt"]
    scale = {"unit": 1.0, "tiny": 1e-9, "huge": 1e12, "negative": -50.0, "ints": 1.0, "mixedsign": 30.0}[case["family"]]
    vals = rng.normal(1.0 if case["family"] != "mixedsign" else 0.0, 0.3 if case["family"] != "mixedsign" else 1.0, size=(ni, nt)) * scale
    if case["family"] == "ints":
        vals = np.round(vals * 20)
    if case["nan"] and nt > 2:
        m = rng.random((ni, nt)) < 0.15
        vals = np.where(m, np.nan, vals)
    X = pd.DataFrame({"dim_0": [pd.Series(vals[i].copy()) for i in range(ni)]})
    # the panel's row labels are arbitrary (e.g. after shuffling or slicing); instances and labels are matched by position
    ri = case.get("rowidx", "default")
    if ri == "permuted":
        X.index = rng.permutation(ni)
    elif ri == "offset":
        X.index = np.arange(5, 5 + ni)
    elif ri == "strings":
        X.index = ["case%d" % (ni - i) for i in range(ni)]
    labelset = LABELSETS[case["labels"]]
    yv = None
    if labelset:
        yv = [labelset[int(k)] for k in rng.integers(0, len(labelset), size=ni)]
    d = os.path.join(os.environ.get("VMON_HOME", "/verif"), ".cache", "c18", "rt-%d-%d" % (os.getpid(), case["i"]))
    shutil.rmtree(d, ignore_errors=True)
    os.makedirs(d, exist_ok=True)
    try:
        kw = dict(problem_name="p", class_label=labelset, class_value_list=yv)
        if case["comment"]:
            kw["comment"] = "generated by the harness; values in arbitrary units, comment block wraps over several lines when it is long enough to do so"
        if case["equal"]:
            kw.update(equal_length=True, series_length=nt)
        if case["nan"]:
            kw["missing_values"] = case["nan"]
        ok, _ = ctx.call("roundtrip:write-exception", write_dataframe_to_tsfile, X, d, **kw)
        if not ok:
            return
        path = os.path.join(d, "p", "p_transform.ts")
        try:
            res = load_from_tsfile_to_dataframe(path)
        except Exception as e:  # noqa
            from vmon.core import exc_sig
            ctx.check("roundtrip.structure", False, "roundtrip:written-file-cannot-be-loaded:%s" % ("with-labels" if labelset else "without-labels"),
                      "the loader rejects a file produced by the writer: %s" % e, exception=exc_sig(e), header=open(path).read()[:300])
            return
        if labelset:
            ok_form = isinstance(res, tuple) and len(res) == 2
            ctx.check("roundtrip.structure", ok_form, "roundtrip:labelled-file-not-returned-as-X-y", "labelled file not returned as (X, y)")
            if not ok_form:
                return
            Xl, yl = res
        else:
            ok_form = isinstance(res, pd.DataFrame)
            ctx.check("roundtrip.structure", ok_form, "roundtrip:unlabelled-file-not-returned-as-frame", "unlabelled file not returned as a frame", got=str(type(res)))
            if not ok_form:
                return
            Xl, yl = res, None
        printed, plabels = _parse_ts_text(path, bool(labelset))
        ctx.check("roundtrip.structure", Xl.shape == (ni, 1) and [len(Xl.iloc[i, 0]) for i in range(ni)] == [nt] * ni, "roundtrip:instances-or-lengths-differ",
                  "number of instances or series lengths differ after the round trip", shape=list(Xl.shape), lengths=[len(Xl.iloc[i, 0]) for i in range(min(ni, 5))], expected=[ni, nt])
        if Xl.shape[0] == ni and len(printed) == ni:
            same = all(np.array_equal(np.asarray(Xl.iloc[i, 0], dtype=float), np.asarray(printed[i], dtype=float), equal_nan=True) for i in range(ni))
            ctx.check("roundtrip.values", same, "roundtrip:loaded-values-differ-from-printed-values", "loaded values are not the values printed in the file (order or value)")
            # the writer prints enough digits: printed values agree with the data to ~6 significant digits of the series' magnitude
            okp = True
            for i in range(ni):
                a, b = np.asarray(printed[i]), vals[i]
                mag = np.nanmax(np.abs(b)) if np.any(~np.isnan(b)) else 1.0
                if not np.allclose(a, b, rtol=0, atol=2e-6 * max(mag, 1e-300) + (5e-7 if mag >= 1e-3 else 0), equal_nan=True):
                    okp = False
            ctx.check("roundtrip.values", okp, "roundtrip:printed-values-far-from-data", "values printed by the writer are not the data to its printed precision",
                      family=case["family"], first_printed=printed[0][:4], first_data=vals[0][:4].tolist())
        if labelset:
            ctx.check("roundtrip.labels", [str(v) for v in yl] == [str(v).lower() for v in yv], "roundtrip:labels-differ", "labels differ beyond letter case after the round trip",
                      got=[str(v) for v in yl][:6], expected=[str(v).lower() for v in yv][:6])
        else:
            ctx.seen("roundtrip.labels", 0)
        ctx.event(kind="roundtrip", ni=ni, nt=nt, family=case["family"], labels=labelset, options={k: v for k, v in kw.items() if k not in ("class_value_list",)})
        ctx.nontrivial = ni >= 2 and nt >= 2
    finally:
        shutil.rmtree(d, ignore_errors=True)


def _cells_equal(A, B, tol):
    if A.shape != B.shape:
        return False, "shape %s vs %s" % (A.shape, B.shape)
    for i in range(A.shape[0]):
        for j in range(A.shape[1]):
            a, b = np.asarray(A.iloc[i, j], dtype=float), np.asarray(B.iloc[i, j], dtype=float)
            if a.shape != b.shape or not np.allclose(a, b, rtol=tol, atol=tol, equal_nan=True):
                return False, "instance %d column %d" % (i, j)
    return True, ""


def _formats(case, ctx):
    import sktime
    from sktime.utils.data_io import load_from_arff_to_dataframe, load_from_tsfile_to_dataframe, load_from_ucr_tsv_to_dataframe
    base = os.path.join(os.path.dirname(sktime.__file__), "datasets", "data", case["name"], case["name"] + "_TRAIN")
    ok1, a = ctx.call("formats:ts-exception", load_from_tsfile_to_dataframe, base + ".ts")
    ok2, b = ctx.call("formats:arff-exception", load_from_arff_to_dataframe, base + ".arff")
    has_tsv = os.path.exists(base + ".tsv")
    ok3, c = ctx.call("formats:tsv-exception", load_from_ucr_tsv_to_dataframe, base + ".tsv") if has_tsv else (True, (None, None))
    if not (ok1 and ok2 and ok3):
        return
    (Xa, ya), (Xb, yb), (Xc, yc) = a, b, c
    for name, X2, y2 in (("arff", Xb, yb),) + ((("tsv", Xc, yc),) if has_tsv else ()):
        same, where = _cells_equal(Xa, X2, 1e-4)
        ctx.check("cross-format", same, "cross-format:%s-panel-differs-from-ts" % name, ".%s and .ts files of the same data set parse to different panels (%s)" % (name, where))
        la, l2 = [str(v) for v in ya], [str(int(float(v))) if str(v).replace(".", "").replace("-", "").isdigit() else str(v) for v in y2]
        la = [str(int(float(v))) if v.replace(".", "").replace("-", "").isdigit() else v for v in la]
        la, l2 = [v.lower() for v in la], [v.lower() for v in l2]          # the .ts parser normalises the letter case of labels (stated in the property)
        ctx.check("cross-format", la == l2, "cross-format:%s-labels-differ-from-ts" % name, "labels differ between .%s and .ts" % name, ts=la[:6], other=l2[:6])
    # single-frame forms
    ok, fa = ctx.call("formats:ts-frame-exception", load_from_tsfile_to_dataframe, base + ".ts", return_separate_X_and_y=False)
    if ok:
        ctx.check("cross-format", list(fa.columns)[-1] == "class_vals" and [str(v) for v in fa["class_vals"]] == [str(v) for v in ya] and _cells_equal(fa.iloc[:, :-1], Xa, 0)[0],
                  "cross-format:ts-single-frame-form-differs", "single-frame form of the .ts loader differs from the (X, y) form")
    ctx.event(kind="formats", name=case["name"], shape=list(Xa.shape), labels=sorted(set(str(v) for v in ya)))
    ctx.nontrivial = True


def _dataset(case, ctx):
    import sktime.datasets.base as B
    name = case["name"]
    fn = getattr(B, LOADERS[name]) if name in LOADERS else (lambda split=None, return_X_y=False: B.load_UCR_UEA_dataset(name, split=split, return_X_y=return_X_y))
    res = {}
    for split in ("train", "test", None):
        ok, r = ctx.call("loader:exception:%s" % name, fn, split, True)
        if not ok:
            return
        res[split] = r
    (Xtr, ytr), (Xte, yte), (X, y) = res["train"], res["test"], res[None]
    ctx.check("loader.concat", len(X) == len(Xtr) + len(Xte) and len(y) == len(X), "loader:split-none-wrong-size", "split=None does not have train + test instances",
              n=len(X), train=len(Xtr), test=len(Xte))
    if len(X) == len(Xtr) + len(Xte):
        s1, w1 = _cells_equal(X.iloc[:len(Xtr)], Xtr, 0)
        s2, w2 = _cells_equal(X.iloc[len(Xtr):], Xte, 0)
        ctx.check("loader.concat", s1 and s2, "loader:split-none-not-train-then-test", "split=None is not the training instances followed by the test instances", where=w1 or w2)
        ctx.check("loader.concat", [str(v) for v in y] == [str(v) for v in ytr] + [str(v) for v in yte], "loader:split-none-labels-not-train-then-test",
                  "labels for split=None are not train labels followed by test labels")
    for split in ("train", "test", None):
        ok, f = ctx.call("loader:frame-exception:%s" % name, fn, split, False)
        if not ok:
            continue
        Xs, ys = res[split]
        good = list(f.columns)[-1] == "class_val" and len(f) == len(Xs) and [str(v) for v in f["class_val"]] == [str(v) for v in ys]
        good = good and _cells_equal(f.iloc[:, :-1], Xs, 0)[0]
        ctx.check("loader.forms", good, "loader:single-frame-form-inconsistent-with-X-y", "single-frame form differs from the return_X_y form (split=%s)" % split,
                  columns=list(f.columns)[-2:], n=len(f), nan_labels=int(f["class_val"].isna().sum()) if "class_val" in f else None)
    # a loader has no memory: after the single-frame forms have been requested (and the returned frames been edited by the caller),
    # the (X, y) forms are what they were
    for split in ("train", "test", None):
        ok, f = ctx.call("loader:frame-exception:%s" % name, fn, split, False)
        if ok:
            try:
                f["scratch"] = 0            # a caller editing what it was given
                f.iloc[0, 0] = f.iloc[-1, 0]
            except Exception:  # noqa
                pass
        ok, r2 = ctx.call("loader:exception:%s" % name, fn, split, True)
        if ok:
            X2, y2 = r2
            Xs, ys = res[split]
            good = list(X2.columns) == list(Xs.columns) and len(X2) == len(Xs) and _cells_equal(X2, Xs, 0)[0] and [str(v) for v in y2] == [str(v) for v in ys]
            ctx.check("loader.forms", good, "loader:X-y-form-changes-after-other-calls", "the return_X_y form differs after the single-frame form was requested / edited (split=%s)" % split,
                      columns=[str(c) for c in X2.columns][-3:], expected_columns=[str(c) for c in Xs.columns][-3:])
    ctx.event(kind="dataset", name=name, train=len(Xtr), test=len(Xte), columns=X.shape[1], classes=sorted(set(str(v) for v in y))[:6])
    ctx.nontrivial = True
