"""C13 - series transformers are invertible, index-preserving and aligned in time.

Metamorphic monitors (round trip, fit_transform == fit().transform(), index shift) over every
series transformer plus a reference for the seasonal phase: the removed component is
recovered as z - transform(z) (additive) or z / transform(z) (multiplicative) and compared
with the fitted seasonal_ at the phase (t - t0) mod sp, t0 = start of the *training* series."""
import numpy as np
import pandas as pd

PID = "C13"
LEVEL = "exploration"
RULE = ("cases = (transformer configuration, training length, index offset / class, stretch [a, b) possibly gapped, 0-2 intervening "
        "updates with batches at arbitrary offsets, shift k); non-trivial: the stretch does not start at the training start or an "
        "update happened or the stretch is gapped; distinct = distinct case dict")
ANCHOR_FILES = ["sktime/transformations/series/*.py", "sktime/transformations/series/detrend/*.py", "sktime/transformations/base.py",
                "sktime/utils/datetime.py", "sktime/utils/seasonality.py"]
REQUIRED_REACH = ["_deseasonalize.py:Deseasonalizer._align_seasonal", "_deseasonalize.py:Deseasonalizer.update", "_detrend.py:Detrender.transform",
                  "_detrend.py:Detrender.inverse_transform", "boxcox.py:BoxCoxTransformer.inverse_transform", "base.py:BaseTransformer.fit_transform",
                  "adapt.py:TabularToSeriesAdaptor.inverse_transform", "compose.py:OptionalPassthrough.inverse_transform",
                  "outlier_detection.py:_hampel_filter", "impute.py:Imputer.transform", "acf.py:AutoCorrelationTransformer.transform"]
REQUIRED_MONITORS = ["roundtrip", "index", "phase", "fit_transform", "shift"]
NOT_COVERED = ["datetime / period indices", "multivariate series for the univariate-only transformers"]
ASSUMPTIONS = ["Box-Cox round trips are only judged when |lambda| <= 3 (beyond that the transform itself loses all precision)"]
JOBS = {"quick": 8, "thorough": 16}

CONFIGS = [
    ["boxcox", {"bounds": [0, 2]}], ["boxcox", {}], ["boxcox", {"method": "pearsonr"}], ["log", {}],
    ["detrend", {"degree": 1}], ["detrend", {"degree": 2}], ["detrend", {"degree": 0}], ["detrend_naive", {}], ["detrend", {"default": True}],
    ["deseason", {"sp": 2, "model": "additive"}], ["deseason", {"sp": 3, "model": "additive"}], ["deseason", {"sp": 4, "model": "multiplicative"}],
    ["deseason", {"sp": 7, "model": "additive"}], ["deseason", {"sp": 5, "model": "multiplicative"}], ["deseason", {"sp": 1, "model": "additive"}],
    ["cdeseason", {"sp": 3, "model": "additive"}], ["cdeseason", {"sp": 4, "model": "multiplicative"}],
    ["scaler", {"which": "standard"}], ["scaler", {"which": "minmax"}], ["scaler", {"which": "power"}],
    ["optional", {"passthrough": False}, ["deseason", {"sp": 3, "model": "additive"}]], ["optional", {"passthrough": True}, ["log", {}]],
    ["optional", {"passthrough": False}, ["boxcox", {"bounds": [0, 2]}]],
    ["cos", {}], ["imputer", {"method": "linear"}], ["imputer", {"method": "mean"}], ["imputer", {"method": "drift"}], ["imputer", {"method": "nearest"}],
    ["hampel", {"window_length": 5}], ["hampel", {"window_length": 4, "return_bool": True}], ["acf", {"n_lags": 4}], ["pacf", {"n_lags": 3}],
]
INVERTIBLE = {"boxcox", "log", "detrend", "detrend_naive", "deseason", "cdeseason", "scaler", "optional"}
SAME_INDEX = {"boxcox", "log", "detrend", "detrend_naive", "deseason", "cdeseason", "scaler", "optional", "cos", "imputer", "hampel"}
HAS_UPDATE = {"detrend", "detrend_naive", "deseason", "cdeseason"}
FRAME_OK = {"log", "cos", "imputer", "hampel", "scaler"}      # transformers that accept a multivariate series (DataFrame)


def build(cfg):
    from vmon import zoo
    kind, p = cfg[0], dict(cfg[1])
    if kind == "detrend_naive":
        from sktime.forecasting.naive import NaiveForecaster
        from sktime.transformations.series.detrend import Detrender
        return Detrender(NaiveForecaster(strategy="mean", window_length=3))
    if kind == "scaler" and p.get("which") == "power":
        from sklearn.preprocessing import PowerTransformer
        from sktime.transformations.series.adapt import TabularToSeriesAdaptor
        return TabularToSeriesAdaptor(PowerTransformer(method="yeo-johnson", standardize=False))
    if kind == "hampel":
        from sktime.transformations.series.outlier_detection import HampelFilter
        return HampelFilter(**p)
    if kind == "acf":
        from sktime.transformations.series.acf import AutoCorrelationTransformer
        return AutoCorrelationTransformer(**p)
    if kind == "pacf":
        from sktime.transformations.series.acf import PartialAutoCorrelationTransformer
        return PartialAutoCorrelationTransformer(**p)
    if kind == "optional":
        from sktime.transformations.series.compose import OptionalPassthrough
        return OptionalPassthrough(build(cfg[2]), passthrough=p.get("passthrough", False))
    return zoo.build_transformer(cfg)


def cases(tier, seed):
    rng = np.random.default_rng([seed, 13])
    reps = 60 if tier == "quick" else 1500
    for r in range(reps):
        for cfg in CONFIGS:
            n = int(rng.integers(16, 60))
            sp = cfg[1].get("sp", cfg[2][1].get("sp", 1) if len(cfg) > 2 else 1)
            n = max(n, 2 * sp + 3)
            a = int(rng.integers(0, n + 2 * max(sp, 2)))
            b = a + int(rng.integers(3, 46))
            if cfg[0] in ("hampel", "acf", "pacf", "imputer"):
                b = max(b, a + 14)      # these need a minimum number of observations (window length / lags)
            nup = int(rng.integers(0, 3)) if cfg[0] in HAS_UPDATE or (cfg[0] == "optional") else 0
            yield {"flat": bool(cfg[0] == "cdeseason" and rng.random() < 0.4), "cfg": cfg, "n": n, "off": int(rng.choice([0, 5, -30, 10 ** 6])), "idx": "range" if rng.random() < 0.5 else "int", "a": a, "b": b,
                   "gapped": bool(rng.random() < 0.25), "stride": int(rng.choice([1, 1, 1, 2, 3, 5])), "updates": [[int(rng.integers(0, 4)), int(rng.integers(1, 9)), bool(rng.random() < 0.5)] for _ in range(nup)],
                   "shift": int(rng.choice([1, 7, -30, 10 ** 6])), "dseed": int(rng.integers(0, 2 ** 31)),
                   # earlier life of the instance: fitted under another configuration of the same class, then reconfigured with set_params
                   "frame": bool(cfg[0] in FRAME_OK and rng.random() < 0.35),
                   "pre": (lambda same: same[int(rng.integers(0, len(same)))] if rng.random() < 0.35 else None)([c for c in CONFIGS if c[0] == cfg[0]])}


def _mk(vals, lo, idxkind, off, positions=None):
    pos = np.arange(lo, lo + len(vals)) if positions is None else np.asarray(positions)
    idx = pd.RangeIndex(off + lo, off + lo + len(vals)) if (idxkind == "range" and positions is None) else pd.Index(off + pos)
    return pd.Series(np.asarray(vals, dtype=float), index=idx)


def _close(a, b, tol=1e-8):
    a, b = np.asarray(a, dtype=float), np.asarray(b, dtype=float)
    if a.shape != b.shape:
        return False
    scale = 1.0 + (float(np.nanmax(np.abs(b))) if b.size and not np.all(np.isnan(b)) else 0.0)
    return bool(np.allclose(a, b, rtol=tol, atol=tol * scale, equal_nan=True))


def run_case(case, ctx):
    import warnings
    warnings.simplefilter("ignore")
    cfg, n, off = case["cfg"], case["n"], case["off"]
    kind = cfg[0]
    inner_kind = cfg[2][0] if kind == "optional" else kind
    rng = np.random.default_rng([case["dseed"], 1313])
    L = max(case["b"], n) + sum(u[0] + u[1] for u in case["updates"]) + 12
    t = np.arange(L)
    full = 60 + 0.5 * t + 6 * np.sin(2 * np.pi * t / max(cfg[1].get("sp", 4), 2)) + 2 * np.cos(2 * np.pi * t / 5) + rng.normal(0, 1.0, size=L)
    if case.get("flat"):
        full = 60 + rng.normal(0, 1.0, size=L)            # no seasonality: the conditional deseasonaliser must leave data alone
    if kind in ("hampel",):
        full[rng.integers(0, L, size=3)] += 80.0        # outliers
    if kind == "imputer":
        m = rng.random(L) < 0.2
        m[0] = m[-1] = False
        full = np.where(m, np.nan, full)
    integer = case["dseed"] % 5 == 0 and kind != "imputer" and not case.get("flat")
    if integer:
        full = np.round(full)       # handed over as an integer-typed series below
        ctx.tag("input:integer-series")
    # history before the training start (positions -B .. -1), for stretches that begin earlier than the training series
    B = 3 * max(cfg[1].get("sp", cfg[2][1].get("sp", 4) if len(cfg) > 2 else 4), 2) + 6
    tb = np.arange(-B, 0)
    before = 60 + 0.5 * tb + 6 * np.sin(2 * np.pi * tb / max(cfg[1].get("sp", 4), 2)) + 2 * np.cos(2 * np.pi * tb / 5) + rng.normal(0, 1.0, size=B)
    if case.get("flat"):
        before = 60 + rng.normal(0, 1.0, size=B)
    if integer:
        before = np.round(before)
    fullx = np.concatenate([before, full])
    y = _mk(full[:n], 0, case["idx"], off)
    frame = bool(case.get("frame")) and kind in FRAME_OK
    # multivariate series: two columns over the same time index (the second an affine image of the first)
    T = (lambda s_: s_.astype(np.int64)) if integer else (lambda s_: s_)
    W = (lambda s_: pd.DataFrame({"b": T(s_).values, "a": s_.values * 0.5 + 3.0}, index=s_.index)) if frame else T
    if frame:
        ctx.tag("input:multivariate-frame")
    tr = build(cfg)
    if case.get("pre"):
        # a used instance must behave like a fresh one once it is reconfigured and fitted again: nothing learned under the earlier
        # configuration / data may survive (all monitors below then run on the reused instance and compare it with fresh ones)
        tr = build(case["pre"])
        m0 = int(rng.integers(12, 40))
        sp0 = max(case["pre"][1].get("sp", 4), 2)
        y0 = _mk(40 + 0.3 * np.arange(m0) + 5 * np.sin(2 * np.pi * (np.arange(m0) + 1) / sp0) + rng.normal(0, 1.0, size=m0) if kind != "imputer" else full[:m0], 3, "int", off + 17)
        try:
            tr.fit(W(y0))
            tr.transform(W(y0))
        except Exception:  # noqa
            pass
        okp, _ = ctx.call("set_params:exception:" + kind, lambda: tr.set_params(**build(cfg).get_params(deep=False)))
        if not okp:
            return
        ctx.seen("refit-after-reconfiguration", 1)
        ctx.tag("history:reconfigured")
    ok, _ = ctx.call("fit:exception:" + kind, tr.fit, W(y.copy()))
    if not ok:
        return
    # ---- fit_transform == fit().transform() -------------------------------------------------------------
    t2 = build(cfg)
    if case.get("pre") and case["dseed"] % 2:
        # fit_transform on an instance that was fitted before (other configuration / data) must refit as well
        try:
            t2 = build(case["pre"])
            t2.fit(W(y0))
            t2.set_params(**build(cfg).get_params(deep=False))
            ctx.tag("history:fit_transform-on-used-instance")
        except Exception:  # noqa
            t2 = build(cfg)
    ok1, a1 = ctx.call("fit_transform:exception:" + kind, t2.fit_transform, W(y.copy()))
    ok2, a2 = ctx.call("transform:exception:" + kind, tr.transform, W(y.copy()))
    if ok1 and ok2:
        same = list(a1.index) == list(a2.index) and _close(np.asarray(a1, dtype=float), np.asarray(a2, dtype=float), 1e-12)
        ctx.check("fit_transform", same, "fit_transform:differs-from-fit-then-transform:" + kind, "fit_transform(z) != fit(z).transform(z)")
    # ---- intervening updates -------------------------------------------------------------------------------
    frozen = kind in HAS_UPDATE and case["updates"] and not any(u[2] for u in case["updates"])
    zt_before = None
    if frozen:
        # updates that keep the fitted parameters may also come between transform and inverse_transform: what was transformed before them is
        # restored after them, and transforms to the same values
        okb, zt_before = ctx.call("transform:exception:" + kind, tr.transform, W(y.copy()))
        if not okb:
            zt_before = None
    pos = n
    for gap, size, up in case["updates"]:
        if kind == "optional":
            break
        lo = pos            # batches follow the training data; `gap` shifts where the *next* stretch starts only
        batch = _mk(full[lo:lo + size], lo, case["idx"], off)
        ok, _ = ctx.call("update:exception:" + kind, tr.update, batch.copy(), update_params=up)
        if not ok:
            return
        pos = lo + size
    if zt_before is not None:
        okc, back = ctx.call("inverse_transform:exception:" + kind, tr.inverse_transform, zt_before.copy())
        if okc:
            fin = np.isfinite(np.asarray(zt_before, dtype=float))
            ctx.check("roundtrip", _close(np.asarray(back, dtype=float)[fin], np.asarray(W(y), dtype=float)[fin]), "roundtrip:across-parameter-keeping-updates:" + kind,
                      "what was transformed before update(update_params=False) calls is not restored by inverse_transform after them", updates=case["updates"])
        okd, again = ctx.call("transform:exception:" + kind, tr.transform, W(y.copy()))
        if okd:
            ctx.check("roundtrip", _close(np.asarray(again, dtype=float), np.asarray(zt_before, dtype=float), 1e-10), "transform:changed-by-parameter-keeping-updates:" + kind,
                      "update(update_params=False) changed what transform returns for the training series", updates=case["updates"])
        ctx.tag("updates-between-transform-and-inverse")
    # ---- the stretch -----------------------------------------------------------------------------------------
    a, b = case["a"], case["b"]
    early = case["dseed"] % 4 == 1 and kind in ("deseason", "cdeseason", "boxcox", "log", "scaler", "optional", "cos")
    if early:
        # the stretch starts before the training series (applying a transformer fitted on a recent window to the longer history)
        a = -int(rng.integers(1, B + 1))
        b = a + max(b - case["a"], 3)
        ctx.tag("stretch:starts-before-training")
    positions = list(range(a, b))
    if case["gapped"] and len(positions) > 4:
        positions = [p for p in positions if (p - a) % 3 != 1]
    V = (lambda ps: fullx[np.asarray(ps) + B]) if early else (lambda ps: full[ps])
    z = _mk(V(positions), a, case["idx"], off, positions=positions if case["gapped"] else None)
    stride = case.get("stride", 1)
    if stride > 1 and not case["gapped"] and (b - a) > 2 * stride:
        # regularly strided stretch, e.g. z.iloc[::2]: a RangeIndex with step > 1 (or the same labels as a plain Index)
        positions = list(range(a, b, stride))
        idx = pd.RangeIndex(off + a, off + b, stride) if case["idx"] == "range" else pd.Index(off + np.asarray(positions))
        z = pd.Series(V(positions), index=idx)
    acf_like = kind in ("acf", "pacf")
    if kind in ("hampel", "acf", "pacf", "imputer", "detrend_naive") and (case["gapped"] or len(positions) != b - a):
        z = _mk(V(list(range(a, b))), a, case["idx"], off)     # these work on positions of a gap-free series
        positions = list(range(a, b))
    zser = z
    z = W(z)
    ok, zt = ctx.call("transform:exception:" + kind, tr.transform, z.copy())
    if not ok:
        return
    if kind in SAME_INDEX:
        ctx.check("index", list(zt.index) == list(z.index) and len(zt) == len(z), "index:output-index-differs-from-input:" + kind,
                  "transform did not return exactly the input's index", got=list(zt.index)[:6], expected=list(z.index)[:6])
    else:
        ctx.seen("index", 0)
    # ---- round trip ---------------------------------------------------------------------------------------------
    if kind in INVERTIBLE:
        lam = getattr(getattr(tr, "transformer_", tr), "lambda_", None)
        if lam is not None and abs(float(np.ravel(lam)[0])) > 3:
            ctx.ambiguous += 1
        else:
            ok, zi = ctx.call("inverse_transform:exception:" + kind, tr.inverse_transform, zt.copy())
            if ok:
                finite = np.isfinite(np.asarray(zt, dtype=float))
                ctx.check("roundtrip", list(zi.index) == list(z.index), "roundtrip:index-changed:" + kind, "inverse_transform changed the time index")
                ctx.check("roundtrip", _close(np.asarray(zi, dtype=float)[finite], np.asarray(z, dtype=float)[finite]),
                          "roundtrip:inverse-of-transform-not-identity:" + kind, "inverse_transform(transform(z)) != z where transform(z) is finite",
                          stretch=[a, b], gapped=case["gapped"], updates=case["updates"], got=np.asarray(zi, dtype=float)[:5].tolist(), expected=np.asarray(z)[:5].tolist())
    else:
        ctx.seen("roundtrip", 0)
    # ---- seasonal phase ----------------------------------------------------------------------------------------------
    if inner_kind in ("deseason", "cdeseason"):
        d = tr.transformer_ if kind == "optional" and not cfg[1].get("passthrough") else tr
        if hasattr(d, "seasonal_") and d.seasonal_ is not None:
            p = cfg[2][1] if kind == "optional" else cfg[1]
            sp, model = p.get("sp", 1), p.get("model", "additive")
            seas = np.asarray(d.seasonal_, dtype=float)
            comp = (np.asarray(z, dtype=float) - np.asarray(zt, dtype=float)) if model == "additive" else (np.asarray(z, dtype=float) / np.asarray(zt, dtype=float))
            exp = np.array([seas[pp % sp] for pp in positions])      # positions are relative to the training start (position 0)
            ctx.check("phase", _close(comp, exp, 1e-9), "phase:seasonal-component-not-at-training-phase:" + inner_kind,
                      "the seasonal component removed at time t is not seasonal_[(t - t0) mod sp] with t0 the training start",
                      stretch_start=a, sp=sp, gapped=case["gapped"], updates=case["updates"], got=comp[:6].tolist(), expected=exp[:6].tolist())
            # ... and the figures themselves are those of the classical decomposition of the training series, counted from its start
            # (statsmodels called directly; only while the figures are those of the first fit, and for the plain - not frame-wrapped - series)
            if not case["updates"] and isinstance(y, pd.Series) and not (inner_kind == "cdeseason" and not bool(getattr(d, "is_seasonal_", True))):
                try:
                    from statsmodels.tsa.seasonal import seasonal_decompose
                    full_seas = np.asarray(seasonal_decompose(np.asarray(y, dtype=float), model=model, period=sp, filt=None, two_sided=True, extrapolate_trend=0).seasonal)
                    ref = np.array([full_seas[pp % sp] for pp in positions])
                    ctx.check("phase", _close(comp, ref, 1e-9), "phase:seasonal-figures-not-those-of-the-training-decomposition:" + inner_kind,
                              "the component removed at time t is not the seasonal figure the classical decomposition of the training series assigns to (t - t0) mod sp",
                              training_length=len(y), sp=sp, remainder=len(y) % sp, got=comp[:6].tolist(), expected=ref[:6].tolist())
                    ctx.tag("phase:independent-decomposition")
                except Exception as e:  # noqa
                    ctx.tag("phase:reference-decomposition-failed:" + type(e).__name__)
        if inner_kind == "cdeseason" and getattr(d, "is_seasonal_", None) is not None and not bool(d.is_seasonal_):
            ctx.check("phase", _close(np.asarray(zt, dtype=float), np.asarray(z, dtype=float), 1e-12), "phase:conditional-deseasonaliser-changes-non-seasonal-data",
                      "the conditional deseasonaliser changed data although its seasonality test found no seasonality")
            ctx.tag("cdeseason:not-seasonal")
    else:
        ctx.seen("phase", 0)
    # ---- the same numbers on a daily datetime index (stretches that start before the training series included): same values ------------
    if inner_kind in ("deseason", "cdeseason") and not case["gapped"] and len(positions) == b - a and isinstance(y, pd.Series) and not case["updates"]:
        try:
            t0 = pd.Timestamp("2001-03-01")
            trd = build(cfg)
            trd.fit(pd.Series(np.asarray(y, dtype=float), index=pd.date_range(t0, periods=len(y), freq="D")))
            zd = pd.Series(np.asarray(z, dtype=float), index=pd.date_range(t0 + pd.Timedelta(days=int(a)), periods=len(positions), freq="D"))
            ztd = trd.transform(zd)
            ran = True
        except Exception as e:  # noqa
            ran = False
            ctx.tag("datetime-index-twin-not-runnable:" + type(e).__name__)
        if ran:
            ctx.check("phase", _close(np.asarray(ztd, dtype=float), np.asarray(zt, dtype=float), 1e-9), "phase:datetime-index:differs-from-integer-index:" + inner_kind,
                      "the same observations on a daily datetime index are deseasonalised differently (the figure removed at a time point depends on its position relative to the "
                      "training start, also before it)", stretch_start=a, got=np.asarray(ztd, dtype=float)[:5].tolist(), expected=np.asarray(zt, dtype=float)[:5].tolist())
            ctx.tag("datetime-index-twin")
    # ---- index shift ------------------------------------------------------------------------------------------------------
    k = case["shift"]
    tr2 = build(cfg)
    ys = pd.Series(y.values.copy(), index=(pd.RangeIndex(off + k, off + k + n) if case["idx"] == "range" else pd.Index(np.arange(off + k, off + k + n))))
    ok, _ = ctx.call("fit:exception:" + kind, tr2.fit, W(ys))
    if ok:
        pos2 = n
        good = True
        for gap, size, up in case["updates"]:
            if kind == "optional":
                break
            batch = _mk(full[pos2:pos2 + size], pos2, case["idx"], off + k)
            okk, _ = ctx.call("update:exception:" + kind, tr2.update, batch, update_params=up)
            good = good and okk
            pos2 += size
        zs = pd.Series(zser.values.copy(), index=z.index + k) if not isinstance(z.index, pd.RangeIndex) else pd.Series(zser.values.copy(), index=pd.RangeIndex(z.index.start + k, z.index.stop + k, z.index.step))
        zs = W(zs)
        if good:
            ok, zts = ctx.call("transform:exception:" + kind, tr2.transform, zs)
            if ok:
                if not acf_like:
                    ctx.check("shift", list(zts.index) == [v + k for v in zt.index], "shift:output-index-not-shifted:" + kind,
                              "shifting all inputs by k did not shift the output index by k", k=k, got=list(zts.index)[:5])
                ctx.check("shift", _close(np.asarray(zts, dtype=float), np.asarray(zt, dtype=float), 1e-9), "shift:output-values-changed:" + kind,
                          "shifting the integer time index of all inputs changed the output values", k=k, base=np.asarray(zt, dtype=float)[:6].tolist(),
                          shifted=np.asarray(zts, dtype=float)[:6].tolist())
    ctx.event(transformer=kind, cfg=cfg[1], n=n, off=off, stretch=[a, b], gapped=case["gapped"], updates=case["updates"], shift=k)
    ctx.tag("kind:" + kind)
    if a % max(cfg[1].get("sp", 2), 2) != 0 or case["updates"] or case["gapped"] or off or stride > 1:
        ctx.nontrivial = True
