"""C10 - updating with new data is equivalent to having observed it, for every history.

Model-based monitor: a small model (dict time -> value, cutoff, expected refits) is stepped in
lock-step with the real forecaster over a random history of fit / update / predict /
update_predict / update_predict_single calls; hooked state: the remembered series `_y`, `cutoff`,
digests of fitted parameters."""
import copy
import pickle

import numpy as np
import pandas as pd

from vmon import zoo

PID = "C10"
LEVEL = "exploration"
RULE = ("cases = (forecaster spec incl. composites, history of 2-8 operations over {update(update_params T/F, consecutive / overlapping / "
        "single-point batch), predict, update_predict(cv, update_params), update_predict_single} after an initial fit with fh given in "
        "fit / only in predict / never before the first update, horizon, series); non-trivial: >= 2 state-changing operations after "
        "fit; distinct = distinct case dict")
ANCHOR_FILES = ["sktime/forecasting/base/_sktime.py", "sktime/forecasting/compose/*.py", "sktime/forecasting/theta.py",
                "sktime/transformations/series/detrend/*.py"]
REQUIRED_REACH = ["_sktime.py:_SktimeForecaster._update_y_X", "_sktime.py:_SktimeForecaster.update",
                  "_sktime.py:_SktimeForecaster._predict_moving_cutoff", "_sktime.py:_format_moving_cutoff_predictions",
                  "_sktime.py:_SktimeForecaster._detached_cutoff", "_ensemble.py:EnsembleForecaster.update",
                  "_pipeline.py:TransformedTargetForecaster.update", "_multiplexer.py:MultiplexForecaster.update", "theta.py:ThetaForecaster.update"]
REQUIRED_MONITORS = ["memory", "cutoff", "refit-equivalence", "params-frozen", "forecast-from-new-cutoff", "update_predict.equivalence",
                     "update_predict.labels", "update_predict.cutoff-restored", "memory.pipeline", "absolute-horizon"]
NOT_COVERED = ["data arriving out of time order", "exogenous data", "prediction intervals"]
# ensembles with n_jobs=2 run under joblib's default (process-based) backend: members live in worker processes during fit / update
ASSUMPTIONS = ["'refits on update' is decided per spec: leaf forecasters inheriting the default update and composites of those"]
JOBS = {"quick": 8, "thorough": 16}
FHS = [[1], [1, 2, 3], [2], [1, 3], [2, 4]]
LEAVES = [
    ["naive", {"strategy": "last"}], ["naive", {"strategy": "mean", "window_length": 4}], ["naive", {"strategy": "drift"}],
    ["naive", {"strategy": "mean", "sp": 3, "window_length": 7}], ["naive", {"strategy": "last", "sp": 2}],
    ["poly", {"degree": 1}], ["poly", {"degree": 2}],
    ["reduce", {"strategy": "recursive", "window_length": 3, "reg": "lin"}],
    ["reduce", {"strategy": "direct", "window_length": 2, "reg": "lin"}],
    ["es", {"trend": "add"}], ["theta", {"sp": 1}], ["theta", {"sp": 4}],
]
COMPOSITES = [
    ["ensemble", {"aggfunc": "mean"}, [["naive", {"strategy": "last"}], ["poly", {"degree": 1}]]],
    ["ensemble", {"aggfunc": "median"}, [["naive", {"strategy": "drift"}], ["poly", {"degree": 2}], ["naive", {"strategy": "mean", "window_length": 3}]]],
    ["multiplex", {"selected": 1}, [["naive", {"strategy": "last"}], ["poly", {"degree": 1}]]],
    ["ensemble", {"aggfunc": "mean", "n_jobs": 2}, [["naive", {"strategy": "last"}], ["poly", {"degree": 1}], ["naive", {"strategy": "mean", "window_length": 4}]]],
    ["pipeline", {}, [["detrend", {"degree": 1}]], ["naive", {"strategy": "mean", "window_length": 3}]],
    ["pipeline", {}, [["deseason", {"sp": 3, "model": "additive"}], ["detrend", {"degree": 1}]], ["naive", {"strategy": "last"}]],
    ["pipeline", {}, [["log", {}]], ["poly", {"degree": 1}]],
    ["pipeline", {}, [], ["naive", {"strategy": "drift"}]],             # a pipeline that consists of its forecaster only
    ["pipeline", {}, [["deseason", {"sp": 3, "model": "additive"}]], ["naive", {"strategy": "mean", "window_length": 4}]],
    ["pipeline", {}, [["cdeseason", {"sp": 4, "model": "additive"}], ["log", {}]], ["poly", {"degree": 1}]],
    ["stack", {"reg": "lin"}, [["naive", {"strategy": "last"}], ["poly", {"degree": 1}]]],
    ["grid", {"grid": {"strategy": ["last", "mean"]}, "cv": ["sliding", {"fh": [1], "window_length": 8, "step_length": 4}], "scoring": None}, ["naive", {}]],
    ["online", {}, [["naive", {"strategy": "last"}], ["naive", {"strategy": "mean", "window_length": 3}]]],
    # members whose forecasts change when they are refitted (trend coefficients, mean over everything seen): parameter-keeping and
    # parameter-updating runs differ visibly
    ["online", {}, [["poly", {"degree": 1}], ["naive", {"strategy": "mean"}]]],
    ["ensemble", {"aggfunc": "median"}, [["poly", {"degree": 2}], ["naive", {"strategy": "mean"}], ["naive", {"strategy": "drift"}]]],
]


def cases(tier, seed):
    rng = np.random.default_rng([seed, 10])
    n_cases = 1200 if tier == "quick" else 20000
    specs = LEAVES + COMPOSITES
    for i in range(n_cases):
        spec = specs[i % len(specs)] if i % 4 else zoo.random_spec(rng, depth=2, allow_slow=False)
        fh = FHS[int(rng.integers(0, len(FHS)))]
        L = int(rng.integers(2, 9))
        ops = []
        for _ in range(L):
            r = rng.random()
            if r < 0.45:
                ops.append(["update", int(rng.integers(1, 5)), int(rng.integers(0, 3)) if rng.random() < 0.35 else 0, bool(rng.random() < 0.5)])
            elif r < 0.65:
                ops.append(["predict"])
            elif r < 0.85:
                cvk = ["sliding", "expanding"][int(rng.integers(0, 2))]
                ops.append(["update_predict", int(rng.integers(4, 9)), cvk, int(rng.integers(1, 4)), int(rng.integers(1, 3)), bool(rng.random() < 0.6),
                            bool(rng.random() < 0.5), [None, None, [0, 1], [-1, 1, 2], [-1, 0]][int(rng.integers(0, 5))]])
            else:
                ops.append(["ups", int(rng.integers(1, 4)), bool(rng.random() < 0.5)])
        if i % 8 == 5:
            # only parameter-updating updates, most of them restating the last one or two known points (batching-invariance histories)
            ops = [["update", int(rng.integers(2, 6)), int(rng.integers(0, 3)), True] for _ in range(int(rng.integers(2, 5)))]
        yield {"spec": spec, "fh": fh, "fh_in": ["fit", "predict", "never"][int(rng.integers(0, 3))], "n0": int(rng.integers(zoo.min_length(spec) + 6, zoo.min_length(spec) + 24)),
               "off": int(rng.choice([0, 3, -12, 700])), "ops": ops, "series": ["seasonal", "walk"][int(rng.integers(0, 2))], "dseed": int(rng.integers(0, 2 ** 31))}


def _same(a, b, tol=1e-7):
    a, b = np.asarray(a, dtype=float), np.asarray(b, dtype=float)
    return a.shape == b.shape and bool(np.allclose(a, b, rtol=tol, atol=tol * (1.0 + (float(np.nanmax(np.abs(b))) if b.size and not np.all(np.isnan(b)) else 0.0)), equal_nan=True))


def _inner(f):
    """the object that holds the remembered series"""
    return getattr(f, "best_forecaster_", f)


def _num(v):
    try:
        return tuple(repr(float(x)) for x in np.round(np.ravel(np.asarray(v, dtype=float)), 10))
    except Exception:  # noqa
        return repr(v)[:60]


def transformer_digest(t):
    """digest of a series transformer's fitted parameters"""
    name = type(t).__name__
    if hasattr(t, "forecaster_") and t.forecaster_ is not None:
        return (name, fitted_digest(t.forecaster_))
    if hasattr(t, "seasonal_") and t.seasonal_ is not None:
        return (name, _num(t.seasonal_), repr(t._y_index[0]) if getattr(t, "_y_index", None) is not None else None)
    if hasattr(t, "lambda_"):
        return (name, _num(t.lambda_))
    inner = getattr(t, "transformer_", None)
    if inner is not None:
        if hasattr(inner, "transform") and hasattr(inner, "is_fitted"):
            return (name, transformer_digest(inner))
        return (name, tuple((k, _num(v)) for k, v in sorted(vars(inner).items()) if k.endswith("_") and not k.startswith("_")))
    return (name,)


def fitted_digest(f):
    """digest of fitted parameters (not of remembered data)"""
    name = type(f).__name__
    if hasattr(f, "best_forecaster_"):
        return ("tuner", fitted_digest(f.best_forecaster_))
    if name == "NaiveForecaster" or name.startswith("SpyNaive"):
        return ("naive", f.window_length_, getattr(f, "sp_", None))
    if name == "PolynomialTrendForecaster":
        return ("poly", tuple(repr(float(x)) for x in np.round(np.ravel(f.regressor_.steps[-1][1].coef_), 12)))
    if hasattr(f, "_fitted_forecaster") and f._fitted_forecaster is not None:
        p = f._fitted_forecaster.params
        items = p.items() if hasattr(p, "items") else enumerate(np.ravel(p))
        out = []
        for k, v in items:
            try:
                out.append((str(k), tuple(repr(float(x)) for x in np.round(np.ravel(np.asarray(v, dtype=float)), 10))))
            except Exception:  # noqa
                out.append((str(k), repr(v)))
        return ("sm", tuple(sorted(out)), repr(getattr(f, "trend_", None)), repr(getattr(f, "initial_level_", None)))
    if hasattr(f, "estimators_") or hasattr(f, "estimator_"):
        ests = getattr(f, "estimators_", None) or [f.estimator_]
        return ("reduce", tuple(id(e) for e in ests))
    if getattr(f, "forecasters_", None) is not None:
        return (name, tuple(fitted_digest(m) for m in f.forecasters_), id(getattr(f, "final_regressor_", None)))
    if getattr(f, "steps_", None) is not None:
        return (name, tuple(transformer_digest(t) for _, t in f.steps_[:-1]), fitted_digest(f.steps_[-1][1]))
    if getattr(f, "_forecaster", None) is not None and hasattr(f._forecaster, "is_fitted"):
        return (name, fitted_digest(f._forecaster))
    return (name,)


def run_case(case, ctx):
    import warnings
    warnings.simplefilter("ignore")
    from sktime.forecasting.model_selection import ExpandingWindowSplitter, SlidingWindowSplitter

    spec, fh, off = case["spec"], case["fh"], case["off"]
    rng = np.random.default_rng([case["dseed"], 1010])
    need = case["n0"] + sum(op[1] for op in case["ops"] if op[0] in ("update", "update_predict", "ups")) + 4
    base = zoo.make_series(rng, need, positive=True, off=off, kind=case["series"], integer=case["dseed"] % 5 == 0)
    vals = dict(zip([int(t) for t in base.index], [float(v) for v in base.values]))
    need_fit = zoo.requires_fh_in_fit(spec)
    fh_in = "fit" if need_fit else case["fh_in"]
    f = zoo.build(spec)
    y0 = base.iloc[:case["n0"]]
    ok, _ = ctx.call("fit:exception:" + spec[0], f.fit, y0.copy(), fh=fh if fh_in == "fit" else None)
    if not ok:
        return
    # ---- model ----------------------------------------------------------------------------------------
    mem = dict(zip([int(t) for t in y0.index], [float(v) for v in y0.values]))
    cutoff = int(y0.index[-1])
    nxt = cutoff + 1          # data always arrive starting right after the cutoff
    desync = False            # True between an update_predict and the next update (see known finding)
    fh_known = fh_in == "fit"
    changes = 0
    refits = zoo.refits_on_update(spec)
    chain_static = [True]     # no parameter-updating call since the fit

    def stored_form():
        """the union of everything given, in the representation the forecaster documents to store"""
        inner = _inner(f)
        if type(inner).__name__ == "ThetaForecaster" and inner.deseasonalize:
            ms = mem_series()
            return dict(zip([int(t) for t in ms.index], [float(v) for v in inner.deseasonalizer_.transform(ms).values]))
        return dict(mem)

    def check_state(where):
        inner = _inner(f)
        yy = getattr(inner, "_y", None)
        if yy is not None:
            got = dict(zip([int(t) for t in yy.index], [float(v) for v in yy.values]))
            exp = stored_form()
            same = set(got) == set(exp) and all(abs(got[t] - exp[t]) <= 1e-9 * (1 + abs(exp[t])) for t in exp)
            ctx.check("memory", same and list(yy.index) == sorted(exp), "memory:remembered-series-not-union-of-batches:" + spec[0],
                      "remembered observations are not the union of all batches (later values winning)", where=where,
                      missing=sorted(set(exp) - set(got))[:5], extra=sorted(set(got) - set(exp))[:5],
                      differing=[t for t in exp if t in got and abs(got[t] - exp[t]) > 1e-9 * (1 + abs(exp[t]))][:5])
        ctx.check("cutoff", f.cutoff == cutoff, "cutoff:not-last-time-point-given:" + spec[0], "cutoff is not the last time point given", where=where,
                  got=f.cutoff, expected=cutoff)
        # a pipeline's final forecaster remembers the same union in the pipeline's transformed representation. Judged while the
        # transformers still have the state of the last fit (no parameter-updating call since): all of them map (time, value)
        # pointwise then, so the expected memory is the chain applied to the whole union
        if spec[0] == "pipeline" and chain_static[0] and getattr(f, "steps_", None):
            fin = f.steps_[-1][1]
            zz = getattr(fin, "_y", None)
            if zz is not None and not (type(fin).__name__ == "ThetaForecaster" and fin.deseasonalize):
                try:
                    e = mem_series()
                    for _, t in f.steps_[:-1]:
                        e = t.transform(e)
                except Exception as ex:  # noqa
                    ctx.tag("pipeline-memory-reference-failed:" + type(ex).__name__)
                    e = None
                if e is not None:
                    got = dict(zip([int(t) for t in zz.index], [float(v) for v in zz.values]))
                    exp = dict(zip([int(t) for t in e.index], [float(v) for v in e.values]))
                    same = set(got) == set(exp) and all(abs(got[t] - exp[t]) <= 1e-7 * (1 + abs(exp[t])) for t in exp)
                    ctx.check("memory.pipeline", same, "memory:pipeline:final-forecaster-does-not-remember-the-transformed-observations",
                              "the pipeline's final forecaster does not remember the union of all observations in the pipeline's transformed representation",
                              where=where, transformers=[type(t).__name__ for _, t in f.steps_[:-1]], missing=sorted(set(exp) - set(got))[:5], extra=sorted(set(got) - set(exp))[:5],
                              differing=[(t, got[t], exp[t]) for t in exp if t in got and abs(got[t] - exp[t]) > 1e-7 * (1 + abs(exp[t]))][:4])

    def mem_series():
        ts = sorted(mem)
        return pd.Series([mem[t] for t in ts], index=pd.RangeIndex(ts[0], ts[-1] + 1))

    check_state("after fit")
    for k, op in enumerate(case["ops"]):
        kind = op[0]
        if kind == "update" or kind == "ups":
            size = op[1]
            overlap = op[2] if kind == "update" else 0
            up = op[3] if kind == "update" else op[2]
            overlap = min(overlap, cutoff - min(mem))
            # batches start right after the cutoff and always reach at least the end of what has been given so far
            # (after an update_predict run this re-sends the evaluated stretch, as a user updating with the test data would)
            ts = list(range(nxt - overlap, max(nxt + size, max(mem) + 1)))
            bvals = [vals[t] + (0.37 * (k + 1) if t < nxt else 0.0) for t in ts]   # overlapping points carry new values: later wins
            batch = pd.Series(bvals, index=pd.RangeIndex(ts[0], ts[-1] + 1))
            before = fitted_digest(f)
            if kind == "update":
                ok, _ = ctx.call("update:exception:" + spec[0], f.update, batch.copy(), update_params=up)
                pred = None
            else:
                ok, pred = ctx.call("update_predict_single:exception:" + spec[0], f.update_predict_single, batch.copy(), fh=fh, update_params=up)
                fh_known = True
            if not ok:
                return
            if up:
                chain_static[0] = False
            for t, v in zip(ts, bvals):
                mem[t] = v
            cutoff = ts[-1]
            nxt = cutoff + 1
            desync = False
            changes += 1
            check_state("after %s #%d" % (kind, k))
            if not up:
                ctx.check("params-frozen", fitted_digest(f) == before, "update:fitted-parameters-changed-although-update_params-false:" + spec[0],
                          "fitted parameters changed although update_params=False", where=k)
            if pred is not None:
                ctx.check("forecast-from-new-cutoff", [int(v) for v in pred.index] == [cutoff + h for h in fh], "update_predict_single:forecast-not-from-new-cutoff:" + spec[0],
                          "update_predict_single forecast is not labelled from the new cutoff", got=[int(v) for v in pred.index])
            if up and refits and (fh_known or not need_fit) and max(mem) == cutoff:
                # equivalence with a fresh forecaster fitted on everything seen so far
                g = zoo.build(spec)
                try:
                    g.fit(mem_series(), fh=fh if (fh_in == "fit") else None)
                    pg = g.predict(fh)
                except Exception as e:  # noqa
                    ctx.tag("fresh-fit-failed:" + type(e).__name__)
                    continue
                okp, pf = ctx.call("predict:exception:" + spec[0], f.predict, fh if not need_fit else None)
                fh_known = True
                if okp:
                    ctx.check("refit-equivalence", [int(v) for v in pf.index] == [int(v) for v in pg.index] and _same(pf.values, pg.values),
                              "update:not-equivalent-to-fresh-fit-on-all-data:" + spec[0], "fit(y1); update(y2) forecasts differ from a fresh fit on y1 followed by y2",
                              where=k, got=pf.values.tolist(), expected=pg.values.tolist())
        elif kind == "predict":
            if need_fit:
                arg = None
            else:
                arg = fh
            okp, p = ctx.call("predict:exception:" + spec[0], f.predict, arg)
            if not okp:
                return
            fh_known = True
            key = "predict:forecast-not-from-current-cutoff:" + spec[0]
            if desync and zoo.children(spec):
                key = "composite:members-keep-moved-cutoff-after-update_predict"
            ctx.check("forecast-from-new-cutoff", [int(v) for v in p.index] == [cutoff + h for h in fh], key,
                      "forecast is not labelled from the current cutoff", got=[int(v) for v in p.index], cutoff=cutoff, after_update_predict=desync)
            check_state("after predict #%d" % k)
        else:  # update_predict
            _, size, cvk, step, wl, sww, up = op[:7]
            fh_ins = op[7] if len(op) > 7 else None
            # state left behind by an earlier update_predict: evaluated data stay in the remembered series while the cutoff was
            # restored, so a refit inside this run trains on (and moves the cutoff to) data ahead of the window (known finding)
            ahead = max(mem) > cutoff
            # (plain window forecasters evaluated without parameter updates read the window that ends at each cutoff whatever lies
            # beyond it in memory: they are judged normally also in that state)
            pre = "stale-memory-ahead-of-cutoff:" if (ahead and (up or spec[0] == "theta" or zoo.children(spec))) else ""
            if spec[0] in ("grid", "rand"):
                up = False
            # a cv horizon reaching back to observed time points (in-sample steps): only forecasters that implement in-sample prediction
            fh_outer = fh
            if fh_ins and spec[0] in ("naive", "poly") and spec[1].get("strategy", "last") in ("last", "mean") and spec[1].get("sp", 1) == 1 and not need_fit and fh_in != "fit":
                fh = fh_ins
                sww = True
                wl = max(wl, 2)
                if ahead:
                    # in-sample steps are forecast by walking the cutoff back over the remembered series, which is the stale one here
                    pre = "stale-memory-ahead-of-cutoff:"
            seg_t = list(range(nxt, nxt + size))
            seg = pd.Series([vals[t] for t in seg_t], index=pd.RangeIndex(seg_t[0], seg_t[-1] + 1))
            hmax = max(fh)
            if wl + hmax > size:
                wl = max(1, size - hmax)
            if wl + hmax > size:
                fh = fh_outer
                continue
            if cvk == "sliding":
                step = min(step, wl)     # windows that leave gaps would make the remembered series gapped (outside "data arrive in time order" without holes)
            mk = (lambda: SlidingWindowSplitter(fh=fh, window_length=wl, step_length=step, start_with_window=sww)) if cvk == "sliding" else \
                 (lambda: ExpandingWindowSplitter(fh=fh, initial_window=wl, step_length=step, start_with_window=sww))
            # reference: the corresponding sequence of single updates and predicts on a copy
            try:
                g = pickle.loads(pickle.dumps(f))
            except Exception:  # noqa
                g = copy.deepcopy(f)
            c_before = f.cutoff
            if up:
                chain_static[0] = False
            twin = None
            if not up and not zoo.children(spec) and fh_outer == fh:
                try:
                    twin = pickle.loads(pickle.dumps(f))
                except Exception:  # noqa
                    twin = copy.deepcopy(f)
            ok, res = ctx.call(pre + "update_predict:exception:" + spec[0], f.update_predict, seg.copy(), cv=mk(), update_params=up)
            if not ok:
                return
            if twin is not None and (fh_known or not need_fit or fh_in == "fit"):
                # a rolling evaluation without parameter updates leaves the forecaster where it was: same cutoff, same fitted parameters,
                # hence the same forecast as a copy that never saw the evaluated stretch
                try:
                    pb = twin.predict(fh if not need_fit else None)
                except Exception as e:  # noqa
                    pb = None
                    ctx.tag("twin-predict-failed:" + type(e).__name__)
                if pb is not None:
                    okp, pa = ctx.call("predict:exception-after-update_predict:" + spec[0], f.predict, fh if not need_fit else None)
                    if okp:
                        # ThetaForecaster's drift term counts the remembered observations (len(_y)): the evaluated stretch left in memory
                        # shifts it - the remembered-data-not-restored mechanism of the known finding, not a window read from the wrong place
                        mempre = "stale-memory-ahead-of-cutoff:" if spec[0] == "theta" else ""
                        ctx.check("update_predict.cutoff-restored", [int(v) for v in pa.index] == [int(v) for v in pb.index] and _same(pa.values, pb.values),
                                  mempre + "update_predict:later-forecast-not-made-from-restored-cutoff:" + spec[0],
                                  "after update_predict(update_params=False) predict differs from a copy that did not run the evaluation: the forecast is not "
                                  "made from the window that ends at the restored cutoff", got=pa.values.tolist()[:6], expected=pb.values.tolist()[:6], cutoff=int(c_before))
                        ctx.tag("predict-after-update_predict-compared")
            ref_preds, ref_cutoffs = [], []
            failed = False
            for win, _ in mk().split(seg):
                y_new = seg.iloc[win]
                try:
                    g.update(y_new.copy(), update_params=up)
                    pr = g.predict(fh if not need_fit else None)
                except Exception as e:  # noqa
                    ctx.tag("reference-sequence-failed:" + type(e).__name__)
                    failed = True
                    break
                ref_preds.append(pr)
                ref_cutoffs.append(int(y_new.index[-1]) if len(y_new) else int(seg.index[0]) - 1)
                for t, v in zip(y_new.index, y_new.values):
                    mem[int(t)] = float(v)
            fh_known = True
            ctx.check("update_predict.cutoff-restored", f.cutoff == c_before == cutoff, pre + "update_predict:cutoff-not-restored:" + spec[0],
                      "update_predict changed the forecaster's own cutoff", before=c_before, after=f.cutoff)
            if failed or not ref_preds:
                fh = fh_outer
                continue
            if len(fh) == 1:
                exp = pd.concat(ref_preds)
                good = isinstance(res, pd.Series) and [int(v) for v in res.index] == [int(v) for v in exp.index] and _same(res.values, exp.values)
                ctx.check("update_predict.equivalence", good, pre + "update_predict:differs-from-single-updates-and-predicts:" + spec[0],
                          "update_predict differs from the corresponding sequence of single update + predict calls",
                          got=np.asarray(res).ravel().tolist()[:8], expected=exp.values.tolist()[:8])
                ctx.check("update_predict.labels", isinstance(res, pd.Series) and [int(v) for v in res.index] == [c + fh[0] for c in ref_cutoffs],
                          pre + "update_predict:not-labelled-by-cutoff-plus-step:" + spec[0], "single-step update_predict not labelled cutoff + step", got=list(getattr(res, "index", []))[:8])
            else:
                exp = pd.DataFrame(ref_preds).T
                exp.columns = ref_cutoffs
                if exp.shape[1] == 1:
                    good = isinstance(res, pd.Series) and _same(res.values, exp.iloc[:, 0].values) and list(res.index) == list(exp.index)
                    labels_ok = True
                else:
                    good = isinstance(res, pd.DataFrame) and res.shape == exp.shape and list(res.index) == list(exp.index) and _same(res.values, exp.values)
                    labels_ok = isinstance(res, pd.DataFrame) and [int(c) for c in res.columns] == ref_cutoffs
                ctx.check("update_predict.equivalence", good, pre + "update_predict:differs-from-single-updates-and-predicts:" + spec[0],
                          "update_predict differs from the corresponding sequence of single update + predict calls", shape=list(getattr(res, "shape", [])),
                          expected_shape=list(exp.shape))
                ctx.check("update_predict.labels", labels_ok, pre + "update_predict:columns-not-the-cutoffs:" + spec[0], "update_predict columns are not the cutoffs",
                          got=[int(c) for c in getattr(res, "columns", [])][:8], expected=ref_cutoffs[:8])
            changes += 1
            # the moving-cutoff run has added the windows to the remembered series; the cutoff stays
            inner = _inner(f)
            yy = getattr(inner, "_y", None)
            if yy is not None:
                got = dict(zip([int(t) for t in yy.index], [float(v) for v in yy.values]))
                exp = stored_form()
                ctx.check("memory", set(got) == set(exp) and all(abs(got[t] - exp[t]) <= 1e-9 * (1 + abs(exp[t])) for t in exp),
                          "memory:after-update_predict:" + spec[0], "remembered series after update_predict is not the union of what was given",
                          missing=sorted(set(exp) - set(got))[:5], extra=sorted(set(got) - set(exp))[:5])
            if spec[0] == "pipeline":
                check_state("after update_predict #%d" % k) if f.cutoff == cutoff else None
            desync = True   # the moving-cutoff run advanced nested members; only the outer cutoff is restored
            fh = fh_outer
    # ---- how the new observations were cut into batches does not matter: a history of parameter-updating updates (batches that may restate
    # the last known points) ends where ONE update with everything that was given ends ---------------------------------------------------
    # (not for pipelines whose transformers re-estimate their parameters on update - the detrender: by design each batch is transformed under the
    # trend known at that time, so the forecaster's remembered series depends on the batching)
    def _reestimating_step(sp_):
        if sp_[0] == "pipeline" and any((t[2] if t[0] == "optional" else t)[0] == "detrend" for t in sp_[2]):
            return True
        return any(_reestimating_step(c) for c in zoo.children(sp_))
    upd_ops = [op for op in case["ops"] if op[0] == "update"]
    if len(upd_ops) >= 2 and len(upd_ops) == len(case["ops"]) and all(op[3] for op in upd_ops) and (fh_known or not need_fit) and not _reestimating_step(spec):
        start = min([int(y0.index[-1]) + 1] + [t for t in mem if t > int(y0.index[-1])])
        lo_ = int(y0.index[-1]) + 1 - max(min(op[2], 2) for op in upd_ops)
        ts_ = [t for t in sorted(mem) if t >= lo_]
        one = pd.Series([mem[t] for t in ts_], index=pd.RangeIndex(ts_[0], ts_[-1] + 1))
        g = zoo.build(spec)
        try:
            g.fit(y0.copy(), fh=fh if fh_in == "fit" else None)
            g.update(one.copy(), update_params=True)
            pg = g.predict(fh if not need_fit else None)
        except Exception as e:  # noqa
            pg = None
            ctx.tag("one-batch-twin-failed:" + type(e).__name__)
        if pg is not None:
            okp, pf_ = ctx.call("predict:exception:" + spec[0], f.predict, fh if not need_fit else None)
            if okp:
                ctx.check("refit-equivalence", [int(v) for v in pf_.index] == [int(v) for v in pg.index] and _same(pf_.values, pg.values),
                          "update:result-depends-on-how-the-observations-were-cut-into-batches:" + spec[0],
                          "parameter-updating updates in several (overlapping) batches forecast differently from one update with the same observations",
                          batches=[[op[1], op[2]] for op in upd_ops], got=pf_.values.tolist()[:4], expected=pg.values.tolist()[:4])
                ctx.tag("batching-invariance-compared")
    # ---- a horizon given as absolute time points stays at those time points while the cutoff moves under updates -----------------
    if case["dseed"] % 4 == 2:
        from sktime.forecasting.base import ForecastingHorizon
        c0 = int(y0.index[-1])
        sizes = [2, 3]
        steps0 = [sum(sizes) + 1 + h for h in fh]                     # still ahead of the cutoff after both updates
        P = [c0 + s_ for s_ in steps0]
        A, Bf = zoo.build(spec), zoo.build(spec)
        try:
            # the far horizon may not fit a short training series for window-based forecasters: then there is nothing to compare
            Bf.fit(y0.copy(), fh=list(steps0))
            okB = True
        except Exception as e:  # noqa
            okB = False
            ctx.tag("absolute-horizon:far-horizon-infeasible:" + type(e).__name__)
        okA = False
        if okB:
            okA, _ = ctx.call("fit:exception:" + spec[0], A.fit, y0.copy(), fh=ForecastingHorizon(P, is_relative=False))
        posn = c0 + 1
        for j, sz in enumerate(sizes):
            if not (okA and okB):
                break
            b_ = pd.Series([vals.get(t, 50.0 + 0.1 * t) for t in range(posn, posn + sz)], index=pd.RangeIndex(posn, posn + sz))
            posn += sz
            okA, _ = ctx.call("update:exception:" + spec[0], A.update, b_.copy(), update_params=bool(j % 2))
            okB, _ = ctx.call("update:exception:" + spec[0], Bf.update, b_.copy(), update_params=bool(j % 2))
        if okA and okB:
            cn = posn - 1
            okp, pa = ctx.call("predict:exception:" + spec[0], A.predict)
            if okp:
                ctx.check("absolute-horizon", [int(v) for v in pa.index] == P, "absolute-horizon:forecast-not-at-the-requested-time-points-after-update:" + spec[0],
                          "a forecaster fitted with an absolute horizon does not forecast those time points after updates", got=[int(v) for v in pa.index], expected=P)
                if not need_fit:
                    okq, pb = ctx.call("predict:exception:" + spec[0], Bf.predict, [t - cn for t in P])
                    if okq:
                        ctx.check("absolute-horizon", _same(pa.values, pb.values), "absolute-horizon:differs-from-relative-twin-after-update:" + spec[0],
                                  "after updates, the forecast for absolute time points differs from the same time points requested as steps from the new cutoff",
                                  got=pa.values.tolist(), expected=pb.values.tolist())
                for m_ in (getattr(A, "forecasters_", None) or []):
                    if getattr(m_, "_fh", None) is not None:
                        try:
                            mi = [int(v) for v in m_.predict().index]
                        except Exception:  # noqa
                            continue
                        ctx.check("absolute-horizon", mi == P, "absolute-horizon:member-forecasts-other-time-points-after-update:" + spec[0],
                                  "a member of a composite fitted with an absolute horizon forecasts other time points after updates", member=type(m_).__name__, got=mi, expected=P)
            ctx.tag("absolute-horizon-under-updates")
    else:
        ctx.seen("absolute-horizon", 0)
    ctx.event(spec=zoo.describe(spec), fh=fh, fh_in=fh_in, ops=[o[0] for o in case["ops"]], final_cutoff=cutoff, remembered=len(mem))
    ctx.tag("top:" + spec[0])
    for m in ("refit-equivalence", "params-frozen", "forecast-from-new-cutoff", "update_predict.equivalence", "update_predict.labels",
              "update_predict.cutoff-restored"):
        ctx.seen(m, 0)
    if changes >= 2:
        ctx.nontrivial = True
