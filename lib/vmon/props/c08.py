"""C08 - tuning selects, exposes and refits the candidate with the best CV score.

Reference search loop over ParameterGrid / ParameterSampler, independent of _tune.py; every
cv_results_ row is compared with a separate run of the real evaluate() on a fresh clone;
metrics of both directions; a recording forecaster logs the windows each candidate saw."""
import numpy as np
import pandas as pd

from vmon import spies, zoo

PID = "C08"
LEVEL = "exploration"
RULE = ("cases = (base forecaster with parameter grid or distributions, splitter, series, metric of either direction, refit "
        "on/off, fold strategy refit / update, n_jobs in {None, 2} under the threading backend, grid or randomized search); non-trivial: >= 2 candidates "
        "with distinct mean scores (so that the direction of the ranking matters); distinct = distinct case dict")
ANCHOR_FILES = ["sktime/forecasting/model_selection/_tune.py", "sktime/forecasting/model_evaluation/_functions.py",
                "sktime/performance_metrics/forecasting/_classes.py"]
REQUIRED_REACH = ["_tune.py:BaseGridSearch.fit", "_tune.py:ForecastingGridSearchCV._run_search",
                  "_tune.py:ForecastingRandomizedSearchCV._run_search", "_tune.py:BaseGridSearch.check_is_fitted",
                  "_tune.py:BaseGridSearch.predict", "_functions.py:evaluate"]
REQUIRED_MONITORS = ["rows", "rows.honest", "best.direction", "best.bookkeeping", "refit.delegation", "norefit.guard", "same-splits"]
NOT_COVERED = ["process-based joblib backends"]
ASSUMPTIONS = ["ties in the mean score: any tied candidate is accepted as best"]
JOBS = {"quick": 4, "thorough": 16}

BASES = [
    (["spy-naive", {}], {"strategy": ["last", "mean", "drift"], "window_length": [3, 5]}),
    (["spy-naive", {}], [{"strategy": ["mean"], "window_length": [2, 4, 6]}, {"strategy": ["last"], "sp": [1, 2, 3]}]),
    (["naive", {}], {"strategy": ["last", "mean"], "sp": [1, 2, 4]}),
    (["poly", {}], {"degree": [0, 1, 2, 3], "with_intercept": [True]}),
    (["pipeline", {}, [["deseason", {"sp": 2, "model": "additive"}]], ["naive", {"strategy": "last"}]],
     {"forecaster__strategy": ["last", "mean", "drift"], "t0__sp": [2, 3, 4]}),
    (["pipeline", {}, [["detrend", {"degree": 1}]], ["naive", {"strategy": "mean"}]], {"forecaster__window_length": [2, 3, 5, 8]}),
    (["multiplex", {"selected": 0}, [["naive", {"strategy": "last"}], ["naive", {"strategy": "drift"}], ["poly", {"degree": 1}]]],
     {"selected_forecaster": ["m0", "m1", "m2"]}),
    (["multiplex", {"selected": 0}, [["naive", {"strategy": "mean", "window_length": 3}], ["poly", {"degree": 2}]]],
     {"selected_forecaster": ["m0", "m1"], "m0__window_length": [2, 6]}),
    (["ensemble", {"aggfunc": "mean"}, [["naive", {"strategy": "last"}], ["poly", {"degree": 1}], ["naive", {"strategy": "drift"}]]],
     {"aggfunc": ["mean", "median", "min", "max"]}),
    (["reduce", {"strategy": "recursive", "window_length": 3, "reg": "lin"}], {"window_length": [2, 3, 4]}),
    # whole components as candidate values: two named steps of a pipeline / two members of an ensemble are exchanged by one candidate
    (["pipeline", {}, [["detrend", {"degree": 1}]], ["naive", {"strategy": "last"}]],
     lambda: {"t0": [zoo.build_transformer(["detrend", {"degree": 2}]), zoo.build_transformer(["deseason", {"sp": 2, "model": "additive"}])],
              "forecaster": [zoo.build(["naive", {"strategy": "drift"}]), zoo.build(["poly", {"degree": 1}]), zoo.build(["naive", {"strategy": "mean", "window_length": 4}])]}),
    (["multiplex", {"selected": 0}, [["naive", {"strategy": "last"}], ["poly", {"degree": 1}]]],
     lambda: {"selected_forecaster": ["m0"], "m0": [zoo.build(["naive", {"strategy": "mean", "window_length": 3}]), zoo.build(["naive", {"strategy": "drift"}]),
                                                   zoo.build(["naive", {"strategy": "last", "sp": 3}])]}),
    (["multiplex", {"selected": 1}, [["naive", {"strategy": "last"}], ["poly", {"degree": 1}]]],
     lambda: {"selected_forecaster": ["m0", "m1"], "m1": [zoo.build(["poly", {"degree": 2}]), zoo.build(["naive", {"strategy": "drift"}])]}),
    (["ensemble", {"aggfunc": "mean"}, [["naive", {"strategy": "last"}], ["poly", {"degree": 1}], ["naive", {"strategy": "drift"}]]],
     lambda: {"m0": [zoo.build(["naive", {"strategy": "mean", "window_length": 3}]), zoo.build(["poly", {"degree": 2}])],
              "m2": [zoo.build(["poly", {"degree": 0}]), zoo.build(["naive", {"strategy": "last", "sp": 2}])], "aggfunc": ["mean", "max"]}),
]
METRICS = [None, "mape", "mse", "asym_fn", "neg_mae", "neg_asym", "mae", "rmspe", "mdspe", "rmdspe_sym", "mdae", "rmse", "asym", "asym_thr"]


def cases(tier, seed):
    rng = np.random.default_rng([seed, 8])
    n_cases = 110 if tier == "quick" else 3000
    for i in range(n_cases):
        b = i % len(BASES)
        fh = [[1], [1, 2], [1, 2, 3], [2], [1, 3], [1, 2, 3, 4], [2, 3], [3]][int(rng.integers(0, 8))]
        wl = int(rng.integers(10, 15))
        n = int(rng.integers(wl + max(fh) + 4, 44))
        cvk = ["sliding", "expanding", "single", "cutoff"][int(rng.integers(0, 4))]
        step = int(rng.integers(2, 6))
        cv = {"sliding": ["sliding", {"fh": fh, "window_length": wl, "step_length": step}],
              "expanding": ["expanding", {"fh": fh, "initial_window": wl, "step_length": step}],
              "single": ["single", {"fh": fh, "window_length": wl}],
              # given cutoffs (positions in the series, increasing), every candidate is scored at exactly these
              "cutoff": ["cutoff", {"fh": fh, "window_length": wl, "cutoffs": sorted(set(wl + k_ * max(1, min(wl, (n - max(fh) - 2 - wl) // 2)) for k_ in range(3)))}]}[cvk]      # spaced by at most the window: no holes between windows
        yield {"base": b, "cv": cv, "n": n, "off": int(rng.choice([0, 9, -15, 2000])), "scoring": METRICS[int(rng.integers(0, len(METRICS)))],
               "refit": bool(rng.random() < 0.7), "n_jobs": [None, None, 2][int(rng.integers(0, 3))],
               "search": "grid" if rng.random() < 0.7 else "random", "n_iter": int(rng.integers(2, 6)), "rs": int(rng.integers(0, 1000)),
               "dseed": int(rng.integers(0, 2 ** 31)), "series": ["seasonal", "walk"][int(rng.integers(0, 2))],
               "strategy": "update" if rng.random() < 0.3 else "refit"}


def _build(spec, lid):
    if spec[0] == "spy-naive":
        return spies.spy_forecaster_class("naive")(log_id=lid, **spec[1])
    return zoo.build(spec)


def _candidate(spec, lid, params):
    """the candidate a parameter set describes, built without the composite's own replace-by-name logic: whole components among the values are
    exchanged in the component list by hand and the composite is made by its constructor; plain values go through set_params"""
    from sklearn.base import clone
    est = clone(_build(spec, lid))
    whole = {k: v for k, v in params.items() if hasattr(v, "get_params") and "__" not in k}
    rest = {k: v for k, v in params.items() if k not in whole}
    if whole:
        attr = "steps" if hasattr(est, "steps") else "forecasters"
        kw = est.get_params(deep=False)
        kw[attr] = [(n, clone(whole[n]) if n in whole else c) for n, c in getattr(est, attr)]
        est = type(est)(**kw)
    return est.set_params(**rest) if rest else est


def _same_params(a, b):
    """parameter sets are equal; component-valued entries (which may have travelled through a worker process) by class and configuration"""
    if not isinstance(a, dict) or not isinstance(b, dict) or set(a) != set(b):
        return False
    for k in a:
        if hasattr(a[k], "get_params") or hasattr(b[k], "get_params"):
            if type(a[k]) is not type(b[k]) or repr(a[k].get_params()) != repr(b[k].get_params()):
                return False
        elif a[k] != b[k]:
            return False
    return True


def _eq(a, b, tol=1e-9):
    return abs(float(a) - float(b)) <= tol * max(1.0, abs(float(a)), abs(float(b)))


def run_case(case, ctx):
    from joblib import parallel_backend
    from sklearn.base import clone
    from sklearn.model_selection import ParameterGrid, ParameterSampler
    from sktime.exceptions import NotFittedError
    from sktime.forecasting.model_evaluation import evaluate
    from sktime.forecasting.model_selection import ForecastingGridSearchCV, ForecastingRandomizedSearchCV
    import sktime.performance_metrics.forecasting as M

    spec, grid = BASES[case["base"]]
    if callable(grid):
        grid = grid()
    lid = spies.new_log()
    try:
        rng = np.random.default_rng([case["dseed"], 88])
        y = zoo.make_series(rng, case["n"], positive=True, off=case["off"], kind=case["series"], integer=case["dseed"] % 5 == 0)
        # exogenous data go along for the base forecasters that accept them (they ignore the values; the folds must not change)
        X = pd.DataFrame({"x1": np.arange(len(y)) * 0.5, "x0": rng.normal(0, 1, len(y))}, index=y.index) if (case["base"] in (0, 1, 2) and case["dseed"] % 3 != 2) else None
        if X is not None:
            ctx.tag("with-exogenous-data")
        cv = zoo.build_cv(case["cv"])
        scoring = zoo.build_metric(case["scoring"])
        metric = scoring if scoring is not None else M.MeanAbsolutePercentageError()
        base = _build(spec, lid)
        strategy = case.get("strategy", "refit")
        skw = {"strategy": strategy} if strategy != "refit" else {}     # the default is exercised by leaving the argument out
        if case["search"] == "grid":
            tuner = ForecastingGridSearchCV(base, cv=cv, param_grid=grid, scoring=scoring, refit=case["refit"], n_jobs=case["n_jobs"], **skw)
            candidates = list(ParameterGrid(grid))
        else:
            tuner = ForecastingRandomizedSearchCV(base, cv=cv, param_distributions=grid, n_iter=case["n_iter"], scoring=scoring,
                                                  refit=case["refit"], n_jobs=case["n_jobs"], random_state=case["rs"], **skw)
            try:
                candidates = list(ParameterSampler(grid, case["n_iter"], random_state=case["rs"]))
            except Exception:  # noqa
                candidates = None
        fh = case["cv"][1]["fh"]
        # n_jobs=2: threads (recording forecasters keep their log) or joblib's default worker processes
        procs = case["n_jobs"] == 2 and case["dseed"] % 2 == 0 and spec[0] != "spy-naive"
        import contextlib
        with (contextlib.nullcontext() if procs else parallel_backend("threading")):
            ok, _ = ctx.call("tune:fit-exception", tuner.fit, y.copy(), None if X is None else X.copy(), fh=fh)
        ctx.tag("backend:" + ("processes" if procs else "threads" if case["n_jobs"] == 2 else "sequential"))
        if not ok:
            return
        res = tuner.cv_results_
        col = "mean_test_" + metric.name
        ctx.check("rows", candidates is not None and len(res) == len(candidates) and col in res.columns, "tune:candidate-rows",
                  "cv_results_ does not have one row per candidate", rows=len(res), candidates=None if candidates is None else len(candidates),
                  columns=list(res.columns))
        if candidates is None or len(res) != len(candidates) or col not in res.columns:
            return
        # ---- every row equals an independent evaluate() run of that candidate ------------------
        ref_scores = []
        lid2 = spies.new_log()
        try:
            for i, params in enumerate(candidates):
                ctx.check("rows", _same_params(res["params"].iloc[i], params), "tune:params-order", "row %d holds another parameter set" % i,
                          got=res["params"].iloc[i], expected=params)
                cand = _candidate(spec, lid2, params)
                ev = evaluate(cand, zoo.build_cv(case["cv"]), y.copy(), None if X is None else X.copy(), strategy=strategy, scoring=metric)
                ref = float(ev["test_" + metric.name].mean())
                ref_scores.append(ref)
                ctx.check("rows", _eq(res[col].iloc[i], ref), "tune:row-differs-from-independent-evaluate",
                          "mean CV score of candidate %d differs from an independent evaluate() run" % i, got=float(res[col].iloc[i]), expected=ref,
                          params=params)
                # ... and is the candidate's mean CV score: fold loop written out (fit / update on the split's training window, predict the
                # split's test points, metric(y_true, y_pred)), independent of evaluate()
                from sktime.forecasting.base import ForecastingHorizon
                fold_scores, g = [], None
                mref = zoo.metric_reference(case["scoring"]) or metric      # the metric's textbook value, where the metric is the package's own
                try:
                    for k, (tr, te) in enumerate(zoo.build_cv(case["cv"]).split(y)):
                        y_tr, y_te = y.iloc[tr], y.iloc[te]
                        fha = ForecastingHorizon(y_te.index, is_relative=False)
                        if k == 0 or strategy == "refit":
                            g = _candidate(spec, lid2, params)
                            g.fit(y_tr.copy(), None if X is None else X.iloc[tr].copy(), fh=fha)
                        else:
                            g.update(y_tr.copy(), None if X is None else X.iloc[tr].copy())
                        fold_scores.append(float(mref(y_te, g.predict(fha, None if X is None else X.iloc[tr[-1] + 1: te[-1] + 1].copy()))))
                except Exception as e:  # noqa
                    ctx.tag("honest-fold-loop-failed:" + type(e).__name__)
                    fold_scores = None
                if fold_scores:
                    ctx.check("rows.honest", _eq(res[col].iloc[i], float(np.mean(fold_scores))), "tune:row-differs-from-honest-fold-computation:%s" %
                              ("asymmetric-metric" if case["scoring"] in ("mape", "asym", "asym_thr", "asym_fn", "neg_asym") else "metric"),
                              "mean CV score of candidate %d is not the mean over the folds of metric(y_true, y_pred)" % i, got=float(res[col].iloc[i]),
                              expected=float(np.mean(fold_scores)), params=params, metric=metric.name)
        finally:
            spies.drop(lid2)
        # ---- direction / bookkeeping ----------------------------------------------------------------
        gib = case["scoring"] in zoo.GREATER_IS_BETTER        # the direction the metric was declared with, not what the object reports
        ctx.check("best.direction", bool(metric.greater_is_better) == gib, "tune:scorer-reports-another-direction-than-declared",
                  "the scoring object does not report the direction it was declared with", reported=bool(metric.greater_is_better), declared=gib, metric=metric.name)
        scores = [float(v) for v in res[col]]
        best_val = max(scores) if gib else min(scores)
        bi = int(tuner.best_index_)
        ctx.check("best.direction", 0 <= bi < len(scores) and _eq(scores[bi], best_val), "tune:best-not-best-in-declared-direction:%s" % ("greater-is-better" if gib else "lower-is-better"),
                  "best_index_ is not a candidate with the best mean score in the metric's direction", best_index=bi, scores=scores, greater_is_better=gib)
        if 0 <= bi < len(scores):
            ctx.check("best.bookkeeping", _same_params(tuner.best_params_, candidates[bi]) and _eq(tuner.best_score_, scores[bi]), "tune:best_params-or-score-not-of-best_index",
                      "best_params_/best_score_ do not belong to best_index_", best_params=tuner.best_params_, row_params=candidates[bi],
                      best_score=float(tuner.best_score_), row_score=scores[bi])
        rank_col = "rank_test_" + metric.name
        if rank_col in res.columns:
            order = sorted(range(len(scores)), key=lambda k: (-scores[k] if gib else scores[k]))
            ranks = [float(v) for v in res[rank_col]]
            ctx.check("best.direction", all(ranks[order[k]] <= ranks[order[k + 1]] + 1e-12 for k in range(len(order) - 1)), "tune:rank-column-direction",
                      "rank column is not ordered in the metric's direction", ranks=ranks, scores=scores, greater_is_better=gib)
        # ---- same splits for every candidate (spy log) ------------------------------------------------
        if spec[0] == "spy-naive" and strategy == "refit":
            lg = spies.log(lid)
            per = {}
            for ev in lg:
                if ev["op"] == "fit" and not ev.get("in_update"):
                    per.setdefault(ev["obj"], []).append((ev["y"][0], ev["y"][1]))
            expected = [(int(y.index[tr[0]]), int(y.index[tr[-1]])) for tr, _ in zoo.build_cv(case["cv"]).split(y)]
            cand_logs = [v for v in per.values() if v[:len(expected)] == expected or len(v) >= len(expected)]
            n_cv_objs = sum(1 for v in per.values() if v[:len(expected)] == expected)
            ctx.check("same-splits", n_cv_objs >= len(candidates), "tune:candidates-not-evaluated-on-the-same-splits",
                      "not every candidate was fitted on exactly the splitter's training windows", per_object=[v[:4] for v in per.values()][:8],
                      expected=expected[:4], candidates=len(candidates))
        else:
            ctx.seen("same-splits", 0)
        if spec[0] == "spy-naive" and X is not None:
            # exogenous rows handed to every candidate's predict during the search: from the step after the fold's cutoff to its last test point
            bad_ev = [ev for ev in spies.log(lid) if ev["op"] == "predict" and ev.get("X_index") is not None and
                      ev["X_index"] != list(range(ev["cutoff"] + 1, ev["index"][-1] + 1))]
            ctx.check("same-splits", not bad_ev, "tune:exogenous-rows-for-predict-not-cutoff+1-to-last-test-point",
                      "a candidate's predict was not given the exogenous rows from the step after the cutoff up to the last test point",
                      got=(bad_ev[0]["X_index"][:6] if bad_ev else None), cutoff=(bad_ev[0]["cutoff"] if bad_ev else None), asked=(bad_ev[0]["index"] if bad_ev else None))
            ctx.tag("exogenous-rows-at-predict-checked")
        # ---- refit / delegation -------------------------------------------------------------------------
        if case["refit"]:
            direct = _candidate(spec, spies.new_log(), tuner.best_params_)
            direct.fit(y.copy(), None if X is None else X.copy(), fh=fh)
            ok1, p1 = ctx.call("tune:predict-exception", tuner.predict, fh)
            p2 = direct.predict(fh)
            if ok1:
                ctx.check("refit.delegation", list(p1.index) == list(p2.index) and np.allclose(p1.values, p2.values, rtol=1e-9, atol=1e-9),
                          "tune:predict-differs-from-direct-best-forecaster", "predict differs from a forecaster built with best_params_ fitted on the whole series",
                          got=p1.values.tolist(), expected=p2.values.tolist())
            ctx.check("refit.delegation", tuner.cutoff == direct.cutoff == y.index[-1], "tune:cutoff-differs", "cutoff differs from the directly fitted forecaster",
                      got=tuner.cutoff, expected=direct.cutoff)
            if not zoo.requires_fh_in_fit(spec) if spec[0] != "spy-naive" else True:
                ynew = pd.Series(y.values[-3:] + 1.0, index=pd.RangeIndex(y.index[-1] + 1, y.index[-1] + 4))
                oku, _ = ctx.call("tune:update-exception", tuner.update, ynew.copy(), update_params=False)
                direct.update(ynew.copy(), update_params=False)
                if oku:
                    q1, q2 = tuner.predict(fh), direct.predict(fh)
                    ctx.check("refit.delegation", tuner.cutoff == direct.cutoff == ynew.index[-1] and list(q1.index) == list(q2.index)
                              and np.allclose(q1.values, q2.values, rtol=1e-9, atol=1e-9), "tune:update-differs-from-direct-best-forecaster",
                              "update/predict after update differ from the directly built best forecaster", cutoff=tuner.cutoff)
            ctx.seen("norefit.guard", 0)
        else:
            for name, call in (("predict", lambda: tuner.predict(fh)), ("update", lambda: tuner.update(y.iloc[-2:])),
                               ("update_predict_single", lambda: tuner.update_predict_single(y.iloc[-2:], fh=fh))):
                try:
                    call()
                except NotFittedError:
                    ctx.check("norefit.guard", True, "")
                except Exception as e:  # noqa
                    ctx.check("norefit.guard", False, "tune:refit-false:%s-raises-%s" % (name, type(e).__name__),
                              "%s with refit=False raised %s instead of NotFittedError" % (name, type(e).__name__))
                else:
                    ctx.check("norefit.guard", False, "tune:refit-false:%s-returned" % name, "%s returned a result although refit=False" % name)
            ctx.seen("refit.delegation", 0)
        ctx.event(base=spec[0], search=case["search"], candidates=len(candidates), metric=metric.name, greater_is_better=gib,
                  scores=scores[:6], best_index=bi, refit=case["refit"], n_jobs=case["n_jobs"], strategy=strategy)
        ctx.tag("strategy:" + strategy)
        if len(set(round(s, 9) for s in scores)) >= 2:
            ctx.nontrivial = True
    finally:
        spies.drop(lid)
