"""Recording ("spy") estimators handed to the real composites through the public API.

Every spy writes events to LOGS[log_id]; `log_id` is a constructor parameter, so clones made
by the code under test keep writing to the same history."""
import itertools

import numpy as np
import pandas as pd
from sklearn.base import BaseEstimator as SkBase
from sklearn.base import RegressorMixin

LOGS = {}
_counter = itertools.count()


def new_log():
    lid = "log%d" % next(_counter)
    LOGS[lid] = []
    return lid


def log(lid):
    return LOGS[lid]


def drop(lid):
    LOGS.pop(lid, None)


PRED_BASE = 900000.0


class SpyTabularRegressor(RegressorMixin, SkBase):
    """scikit-learn style regressor: records fit/predict arguments, answers with unique ids
    PRED_BASE + 10 * call_no + output_no (single-row single-output answers are 0-d, see DESIGN 0.2)."""

    def __init__(self, log_id=None, name="reg"):
        self.log_id = log_id
        self.name = name

    def fit(self, X, y):
        X = np.array(X, dtype=float, copy=True)
        y = np.array(y, dtype=float, copy=True)
        LOGS[self.log_id].append({"op": "fit", "name": self.name, "obj": _uid(self), "X": X, "y": y})
        self.n_outputs_ = 1 if y.ndim == 1 else y.shape[1]
        self.multi_ = y.ndim > 1
        self.fit_no_ = sum(1 for e in LOGS[self.log_id] if e["op"] == "fit") - 1
        return self

    def predict(self, X):
        X = np.array(X, dtype=float, copy=True)
        lg = LOGS[self.log_id]
        call_no = sum(1 for e in lg if e["op"] == "predict")
        out = np.array([[PRED_BASE + 0.25 + 10 * call_no + j + 1000 * r for j in range(self.n_outputs_)] for r in range(X.shape[0])])
        lg.append({"op": "predict", "name": self.name, "obj": _uid(self), "fit_no": self.fit_no_, "X": X, "out": out.copy()})
        if not self.multi_:
            out = out[:, 0]
            if out.shape[0] == 1:
                return out[0]
        return out


def make_panel_regressor_class():
    from sktime.regression.base import BaseRegressor

    class SpyPanelRegressor(BaseRegressor):
        """sktime time-series regressor (panel input) with the same recording behaviour."""

        def __init__(self, log_id=None, name="tsreg"):
            self.log_id = log_id
            self.name = name
            super(SpyPanelRegressor, self).__init__()

        fit = SpyTabularRegressor.fit
        predict = SpyTabularRegressor.predict

    return SpyPanelRegressor


_panel_cls = None


def SpyPanelRegressor(**kw):
    global _panel_cls
    if _panel_cls is None:
        _panel_cls = make_panel_regressor_class()
    return _panel_cls(**kw)


class Squeeze1(RegressorMixin, SkBase):
    """Adapter for real scikit-learn regressors: numpy 2 refuses `arr[i] = one_element_array`, which
    the reduction code does with the regressor's output, so single-row single-output predictions are
    returned as 0-d values (environment fact, DESIGN 0.2)."""

    def __init__(self, regressor=None):
        self.regressor = regressor

    def fit(self, X, y):
        from sklearn.base import clone

        self.regressor_ = clone(self.regressor).fit(X, y)
        return self

    def predict(self, X):
        out = self.regressor_.predict(X)
        if out.ndim == 1 and out.shape[0] == 1:
            return out[0]
        return out


# ---------------------------------------------------------------------------------
# recording forecasters (subclasses of the real ones)
# ---------------------------------------------------------------------------------
_fc_classes = {}


_uid_counter = itertools.count(1)


def _uid(o):
    """unique id of a spy instance (id() values are reused after garbage collection)"""
    u = o.__dict__.get("_spy_uid")
    if u is None:
        u = o.__dict__["_spy_uid"] = next(_uid_counter)
    return u


def _idx_range(obj):
    if obj is None or len(obj) == 0:
        return None
    return [int(obj.index[0]), int(obj.index[-1]), int(len(obj))]


def spy_forecaster_class(kind="naive"):
    """Subclass of the real NaiveForecaster / PolynomialTrendForecaster that logs what it is given."""
    if kind in _fc_classes:
        return _fc_classes[kind]
    if kind == "naive":
        from sktime.forecasting.naive import NaiveForecaster as Base

        class SpyNaive(Base):
            def __init__(self, strategy="last", window_length=None, sp=1, log_id=None, name="spy"):
                super(SpyNaive, self).__init__(strategy=strategy, window_length=window_length, sp=sp)
                self.log_id = log_id
                self.name = name
        cls = SpyNaive
    else:
        from sktime.forecasting.trend import PolynomialTrendForecaster as Base

        class SpyPoly(Base):
            def __init__(self, regressor=None, degree=1, with_intercept=True, log_id=None, name="spy"):
                super(SpyPoly, self).__init__(regressor=regressor, degree=degree, with_intercept=with_intercept)
                self.log_id = log_id
                self.name = name
        cls = SpyPoly

    def fit(self, y, X=None, fh=None):
        LOGS[self.log_id].append({"op": "fit", "name": self.name, "obj": _uid(self), "y": _idx_range(y), "X": _idx_range(X),
                                  "y_values": np.asarray(y, dtype=float).copy(), "y_index": list(y.index),
                                  "fh": None if fh is None else [int(v) for v in (fh.to_pandas() if hasattr(fh, "to_pandas") else np.atleast_1d(fh))],
                                  "fh_relative": getattr(fh, "is_relative", True), "in_update": getattr(self, "_in_update", False)})
        return Base.fit(self, y, X, fh) if X is None or kind == "naive" else Base.fit(self, y, None, fh)

    def update(self, y, X=None, update_params=True):
        LOGS[self.log_id].append({"op": "update", "name": self.name, "obj": _uid(self), "y": _idx_range(y), "X": _idx_range(X),
                                  "y_values": np.asarray(y, dtype=float).copy(), "y_index": list(y.index), "update_params": update_params})
        self._in_update = True
        try:
            return Base.update(self, y, X if kind == "naive" else None, update_params=update_params)
        finally:
            self._in_update = False

    def predict(self, fh=None, X=None, return_pred_int=False, alpha=0.05):
        out = Base.predict(self, fh, X if kind == "naive" else None, return_pred_int=return_pred_int, alpha=alpha)
        LOGS[self.log_id].append({"op": "predict", "name": self.name, "obj": _uid(self), "cutoff": int(self.cutoff),
                                  "index": [int(v) for v in out.index], "values": np.asarray(out, dtype=float).copy(),
                                  "X_index": None if X is None else [int(v) for v in X.index]})
        return out

    cls.fit = fit
    cls.update = update
    cls.predict = predict
    _fc_classes[kind] = cls
    return cls


# ---------------------------------------------------------------------------------
# recording series transformers: invertible affine maps z -> a*z + b
# ---------------------------------------------------------------------------------
_tr_classes = {}


def spy_transformer_class(skip_inverse=False, with_update=True):
    key = (skip_inverse, with_update)
    if key in _tr_classes:
        return _tr_classes[key]
    from sktime.transformations.base import _SeriesToSeriesTransformer

    class SpyAffine(_SeriesToSeriesTransformer):
        _tags = {"transform-returns-same-time-index": True, "univariate-only": True}

        def __init__(self, a=2.0, b=1000.0, log_id=None, name="t"):
            self.a = a
            self.b = b
            self.log_id = log_id
            self.name = name
            super(SpyAffine, self).__init__()

        def _rec(self, op, Z, **kw):
            LOGS[self.log_id].append(dict({"op": op, "name": self.name, "obj": _uid(self), "values": np.asarray(Z, dtype=float).copy(),
                                           "index": list(Z.index)}, **kw))

        def fit(self, Z, X=None):
            self._rec("fit", Z)
            self._is_fitted = True
            return self

        def transform(self, Z, X=None):
            self.check_is_fitted()
            self._rec("transform", Z)
            return Z * self.a + self.b

        def inverse_transform(self, Z, X=None):
            self.check_is_fitted()
            self._rec("inverse_transform", Z)
            return (Z - self.b) / self.a

    if with_update:
        def update(self, Z, X=None, update_params=True):
            self.check_is_fitted()
            self._rec("update", Z, update_params=update_params)
            return self
        SpyAffine.update = update
    if skip_inverse:
        SpyAffine._tags = dict(SpyAffine._tags, **{"skip-inverse-transform": True})
    SpyAffine.__name__ = "SpyAffine%s%s" % ("Skip" if skip_inverse else "", "" if with_update else "NoUpdate")
    _tr_classes[key] = SpyAffine
    return SpyAffine
