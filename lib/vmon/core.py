"""Core of the runtime-monitoring framework: case context, verdicts, reach counters,
known findings, evidence, replay files and the sharded runner.

A property module (vmon.props.cXX) provides

    PID, LEVEL, RULE                      identifiers / evidence text
    ANCHOR_FILES                          fnmatch patterns (relative to REPO) for reach counting
    REQUIRED_REACH                        substrings of "file:qualname" keys that must be hit
    REQUIRED_MONITORS                     monitor names that must have > 0 evaluations
    NOT_COVERED, ASSUMPTIONS              lists of strings copied into the evidence
    JOBS = {"quick": n, "thorough": n}    shard workers
    cases(tier, seed)                     iterator of JSON-serialisable case dicts
    run_case(case, ctx)                   drives the real code, reports to ctx
    classify(violation) (optional)        maps a witness to its mechanism key
    setup()             (optional)        installs wrappers/contracts once per process

Verdicts are three-valued: exit 0 held, exit 1 violated, exit 2 inconclusive.
"""
import fnmatch
import hashlib
import importlib
import json
import os
import signal
import subprocess
import sys
import time
import traceback
from collections import Counter, OrderedDict

HOME = os.environ.get("VMON_HOME", "/verif")
REPO = os.path.realpath(os.environ.get("VMON_REPO", "/repo"))
SKTIME_DIR = os.path.join(REPO, "sktime")

EXIT_HELD, EXIT_VIOLATED, EXIT_INCONCLUSIVE = 0, 1, 2


class CaseTimeout(BaseException):
    pass


class Inconclusive(Exception):
    pass


def jdefault(o):
    import numpy as np
    import pandas as pd

    if isinstance(o, (np.integer,)):
        return int(o)
    if isinstance(o, (np.floating,)):
        return float(o)
    if isinstance(o, (np.bool_,)):
        return bool(o)
    if isinstance(o, np.ndarray):
        return o.tolist()
    if isinstance(o, (pd.Series, pd.Index)):
        return {"index": [jdefault(i) if not isinstance(i, (int, float, str)) else i for i in getattr(o, "index", range(len(o)))],
                "values": np.asarray(o).tolist()}
    if isinstance(o, (set, frozenset, tuple)):
        return list(o)
    return repr(o)[:300]


def jdump(o, **kw):
    return json.dumps(o, default=jdefault, sort_keys=True, **kw)


def digest(case):
    return hashlib.sha1(jdump(case).encode()).hexdigest()[:12]


def short(x, n=300):
    s = x if isinstance(x, str) else repr(x)
    return s if len(s) <= n else s[: n - 3] + "..."


# ---------------------------------------------------------------------------------
# exception attribution
# ---------------------------------------------------------------------------------
def exc_site(exc):
    """(innermost sktime frame 'file:func' or None, innermost frame 'file:func')."""
    tb = traceback.extract_tb(exc.__traceback__)
    inner = None
    sk = None
    for fr in tb:
        fn = os.path.realpath(fr.filename)
        site = "%s:%s" % (os.path.relpath(fn, REPO) if fn.startswith(REPO) else os.path.basename(fn), fr.name)
        inner = site
        if fn.startswith(SKTIME_DIR):
            sk = site
    return sk, inner


def exc_sig(exc):
    sk, inner = exc_site(exc)
    return {"type": type(exc).__name__, "msg": short(str(exc), 200), "sktime_site": sk, "raised_at": inner}


def env_signature(exc):
    """Return a name if the exception is attributed to the sandbox's third-party versions."""
    try:
        import vcompat_env
    except Exception:
        return None
    return vcompat_env.match(exc, exc_site(exc))


# ---------------------------------------------------------------------------------
# per-case context
# ---------------------------------------------------------------------------------
class Ctx:
    MAX_EVENTS = 40

    def __init__(self, pid, case, index=-1):
        self.pid = pid
        self.case = case
        self.index = index
        self.violations = []
        self.side = []          # events of other properties' monitors
        self.monitors = Counter()
        self.nontrivial = False
        self.ambiguous = 0
        self.env_skipped = Counter()
        self.events = []
        self.tags = Counter()

    # -- reporting --------------------------------------------------------------
    def violation(self, key, msg, **detail):
        self.violations.append({"key": key, "msg": short(msg, 500), "detail": json.loads(jdump(detail))})

    def check(self, monitor, cond, key, msg="", **detail):
        """Count one evaluation of `monitor`; a false `cond` is a violation keyed `key`."""
        self.monitors[monitor] += 1
        if not cond:
            self.violation(key, msg or monitor, **detail)
        return bool(cond)

    def seen(self, monitor, n=1):
        self.monitors[monitor] += n

    def event(self, *a, **kw):
        if len(self.events) < self.MAX_EVENTS:
            self.events.append(json.loads(jdump(a[0] if a and not kw else (list(a) + [kw] if a else kw))))

    def tag(self, t, n=1):
        self.tags[t] += n

    def env_skip(self, name):
        self.env_skipped[name] += 1

    def foreign(self, pid, key, msg, **detail):
        self.side.append({"property": pid, "key": key, "msg": short(msg, 300)})

    # -- guarded calls -----------------------------------------------------------
    def call(self, key, fn, *a, **kw):
        """Call code under test; an exception is a violation `key` unless environmental.

        Returns (ok, result_or_exception)."""
        try:
            return True, fn(*a, **kw)
        except CaseTimeout:
            raise
        except Exception as e:  # noqa
            env = env_signature(e)
            if env:
                self.env_skip(env)
                self.tag("env-skip:%s@%s" % (env, exc_site(e)[0] or exc_site(e)[1]))
                return False, e
            sig = exc_sig(e)
            self.violation(key, "unexpected %s: %s" % (sig["type"], sig["msg"]), exception=sig)
            return False, e


# ---------------------------------------------------------------------------------
# reach counters (sys.monitoring)
# ---------------------------------------------------------------------------------
class Reach:
    CAP = 200
    TOOL = 3

    def __init__(self, patterns):
        self.patterns = list(patterns)
        self.counts = {}
        self._on = False

    def _relevant(self, filename):
        fn = os.path.realpath(filename)
        if not fn.startswith(SKTIME_DIR):
            return None
        rel = os.path.relpath(fn, REPO)
        for p in self.patterns:
            if fnmatch.fnmatch(rel, p):
                return rel
        return None

    def start(self):
        if not self.patterns or not hasattr(sys, "monitoring"):
            return
        mon = sys.monitoring
        try:
            mon.use_tool_id(self.TOOL, "vmon-reach")
        except ValueError:
            return
        cache = {}

        def cb(code, offset):
            rel = cache.get(code.co_filename, 0)
            if rel == 0:
                rel = cache[code.co_filename] = self._relevant(code.co_filename)
            if rel is None:
                return mon.DISABLE
            k = "%s:%s" % (rel, code.co_qualname)
            c = self.counts.get(k, 0) + 1
            self.counts[k] = c
            if c >= self.CAP:
                return mon.DISABLE
            return None

        mon.register_callback(self.TOOL, mon.events.PY_START, cb)
        mon.set_events(self.TOOL, mon.events.PY_START)
        self._on = True

    def stop(self):
        if self._on:
            mon = sys.monitoring
            mon.set_events(self.TOOL, 0)
            mon.register_callback(self.TOOL, mon.events.PY_START, None)
            mon.free_tool_id(self.TOOL)
            self._on = False


# ---------------------------------------------------------------------------------
# preflight
# ---------------------------------------------------------------------------------
def preflight(selftest=False):
    """Assert that the code under test is /repo's sktime; optionally self-test the layer."""
    import sktime

    path = os.path.realpath(os.path.dirname(sktime.__file__))
    if path != SKTIME_DIR:
        raise Inconclusive("wrong sktime imported: %s (expected %s)" % (path, SKTIME_DIR))
    if sktime.__version__ != "0.6.0":
        raise Inconclusive("unexpected sktime version %s" % sktime.__version__)
    info = {"sktime_path": path, "sktime_version": sktime.__version__}
    if selftest:
        import vcompat_selftest

        n, failures = vcompat_selftest.run()
        info["compat_selftest_assertions"] = n
        if failures:
            raise Inconclusive("compatibility-layer self-test failed: %s" % "; ".join(failures[:3]))
    import numpy
    import pandas
    import sklearn
    import scipy
    import statsmodels

    info["versions"] = {
        "python": sys.version.split()[0], "numpy": numpy.__version__, "pandas": pandas.__version__,
        "sklearn": sklearn.__version__, "scipy": scipy.__version__, "statsmodels": statsmodels.__version__,
    }
    return info


# ---------------------------------------------------------------------------------
# known findings
# ---------------------------------------------------------------------------------
def load_known(pid):
    path = os.path.join(HOME, "known_findings.json")
    if not os.path.exists(path):
        return []
    with open(path) as f:
        data = json.load(f)
    return [e for e in data.get("findings", []) if e.get("property") == pid]


def match_known(known, key):
    for e in known:
        k = e["key"]
        if k == key or fnmatch.fnmatchcase(key, k):
            return e
    return None


# ---------------------------------------------------------------------------------
# running cases
# ---------------------------------------------------------------------------------
def load_prop(pid):
    return importlib.import_module("vmon.props." + pid.lower())


def _alarm(signum, frame):
    raise CaseTimeout()


def run_one(prop, case, index, timeout):
    ctx = Ctx(prop.PID, case, index)
    status = "ok"
    from vmon import contracts
    contracts.REC.reset()
    if timeout and hasattr(signal, "setitimer"):
        signal.signal(signal.SIGALRM, _alarm)
        signal.setitimer(signal.ITIMER_REAL, timeout)
    try:
        prop.run_case(case, ctx)
    except CaseTimeout:
        status = "timeout"
    except Exception as e:  # noqa
        sk, inner = exc_site(e)
        env = env_signature(e)
        if env:
            ctx.env_skip(env)
            status = "env"
        elif sk is not None:
            # raised while executing repository code on an input the property module
            # did not expect to fail: reported as a crash of the code under test.
            sig = exc_sig(e)
            ctx.violation("crash:%s:%s" % (sig["type"], sk), "uncaught %s in code under test: %s" % (sig["type"], sig["msg"]),
                          exception=sig, traceback=traceback.format_exc()[-1500:])
        else:
            status = "harness_error"
            ctx.harness_error = traceback.format_exc()[-2000:]
    finally:
        if timeout and hasattr(signal, "setitimer"):
            signal.setitimer(signal.ITIMER_REAL, 0)
    from vmon import contracts
    contracts.fold_into(ctx)
    return ctx, status


def install_contracts(prop):
    from vmon import contracts
    which = getattr(prop, "CONTRACTS", "all")
    if which == "all":
        contracts.install_all()
    else:
        for w in which:
            getattr(contracts, "install_%s_contracts" % w)()


def run_shard(prop, tier, seed, shard, nshards, limit=None, case_timeout=120.0):
    """Run the cases i with i % nshards == shard; return a JSON-able result dict."""
    t0 = time.time()
    install_contracts(prop)
    if hasattr(prop, "setup"):
        prop.setup()
    reach = Reach(getattr(prop, "ANCHOR_FILES", []))
    reach.start()
    res = {
        "n": 0, "nontrivial": [], "monitors": Counter(), "tags": Counter(), "violations": [], "vcount": Counter(),
        "env_skipped": Counter(), "ambiguous": 0, "timeouts": 0, "harness_errors": [], "samples": [], "side": Counter(),
        "status": Counter(),
    }
    seen_nt = set()
    per_key = Counter()
    budget = getattr(prop, "TIME_BUDGET", {}).get(tier)
    truncated = False
    try:
        for i, case in enumerate(prop.cases(tier, seed)):
            if limit is not None and i >= limit:
                break
            if i % nshards != shard:
                continue
            if budget and time.time() - t0 > budget:
                truncated = True
                break
            ctx, status = run_one(prop, case, i, case_timeout)
            res["n"] += 1
            res["status"][status] += 1
            res["monitors"].update(ctx.monitors)
            res["tags"].update(ctx.tags)
            res["env_skipped"].update(ctx.env_skipped)
            res["ambiguous"] += ctx.ambiguous
            for s in ctx.side:
                res["side"]["%s:%s" % (s["property"], s["key"])] += 1
            if status == "timeout":
                res["timeouts"] += 1
            if status == "harness_error":
                if len(res["harness_errors"]) < 5:
                    res["harness_errors"].append({"index": i, "case": case, "error": ctx.harness_error})
                else:
                    res["harness_errors"].append({"index": i})
            if ctx.nontrivial:
                d = digest(case)
                if d not in seen_nt:
                    seen_nt.add(d)
                    if len(res["samples"]) < 3 and not ctx.violations:
                        res["samples"].append({"index": i, "case": case, "observed": ctx.events[:12],
                                               "monitor_evaluations": dict(ctx.monitors)})
            for v in ctx.violations:
                key = v["key"]
                if hasattr(prop, "classify"):
                    key = prop.classify(v, case) or key
                    v["key"] = key
                res["vcount"][key] += 1
                per_key[key] += 1
                if per_key[key] <= 3:
                    res["violations"].append({"index": i, "case": case, "violation": v})
    finally:
        reach.stop()
    res["nontrivial"] = sorted(seen_nt)
    res["reach"] = reach.counts
    res["truncated"] = truncated
    res["wall_s"] = time.time() - t0
    for k in ("monitors", "tags", "vcount", "env_skipped", "side", "status"):
        res[k] = dict(res[k])
    return res


def merge(results):
    out = {
        "n": 0, "nontrivial": set(), "monitors": Counter(), "tags": Counter(), "violations": [], "vcount": Counter(),
        "env_skipped": Counter(), "ambiguous": 0, "timeouts": 0, "harness_errors": [], "samples": [], "side": Counter(),
        "reach": Counter(), "status": Counter(), "truncated": False,
    }
    for r in results:
        out["n"] += r["n"]
        out["nontrivial"].update(r["nontrivial"])
        for k in ("monitors", "tags", "vcount", "env_skipped", "side", "reach", "status"):
            out[k].update(r[k])
        out["ambiguous"] += r["ambiguous"]
        out["timeouts"] += r["timeouts"]
        out["harness_errors"].extend(r["harness_errors"])
        out["violations"].extend(r["violations"])
        out["samples"].extend(r["samples"])
        out["truncated"] = out["truncated"] or r.get("truncated", False)
    out["samples"] = sorted(out["samples"], key=lambda s: s["index"])[:4]
    out["violations"].sort(key=lambda v: v["index"])
    kept, per = [], Counter()
    for v in out["violations"]:
        per[v["violation"]["key"]] += 1
        if per[v["violation"]["key"]] <= 3:
            kept.append(v)
    out["violations"] = kept
    return out


def spawn_shards(pid, tier, seed, nshards, limit, worker_timeout):
    tmpdir = os.path.join(HOME, ".cache", "shards", "%s-%d-%d" % (pid, os.getpid(), int(time.time())))
    os.makedirs(tmpdir, exist_ok=True)
    procs = []
    for s in range(nshards):
        out = os.path.join(tmpdir, "shard%d.json" % s)
        cmd = [sys.executable, "-m", "vmon.run", pid, "--tier", tier, "--shard", "%d/%d" % (s, nshards), "--out", out]
        if limit is not None:
            cmd += ["--limit", str(limit)]
        env = dict(os.environ)
        env["VERIF_SEED"] = str(seed)
        procs.append((s, out, subprocess.Popen(cmd, env=env, stdout=subprocess.PIPE, stderr=subprocess.STDOUT)))
    results, problems = [], []
    deadline = time.time() + worker_timeout
    for s, out, p in procs:
        try:
            log, _ = p.communicate(timeout=max(1.0, deadline - time.time()))
        except subprocess.TimeoutExpired:
            p.kill()
            p.communicate()
            problems.append("shard %d: wall-clock watchdog fired" % s)
            continue
        if p.returncode != 0 or not os.path.exists(out):
            problems.append("shard %d: exit %s: %s" % (s, p.returncode, log.decode(errors="replace")[-800:]))
            continue
        with open(out) as f:
            results.append(json.load(f))
    try:
        for f in os.listdir(tmpdir):
            os.unlink(os.path.join(tmpdir, f))
        os.rmdir(tmpdir)
    except OSError:
        pass
    return results, problems


# ---------------------------------------------------------------------------------
# verdict + evidence
# ---------------------------------------------------------------------------------
def finish(prop, tier, seed, merged, problems, info, wall_s, replay_of=None):
    pid = prop.PID
    known = load_known(pid)
    lines = []
    inconclusive = list(problems)

    # violations: known vs new
    new, known_seen = [], OrderedDict()
    for v in merged["violations"]:
        k = match_known(known, v["violation"]["key"])
        if k is not None:
            known_seen.setdefault(k["key"], {"entry": k, "example": v})
        else:
            new.append(v)
    new_keys = [k for k in merged["vcount"] if match_known(known, k) is None]
    for kk, d in known_seen.items():
        lines.append("KNOWN-FINDING: property=%s %s [key=%s, seen %d times]" % (
            pid, d["entry"].get("text", ""), kk,
            sum(c for k2, c in merged["vcount"].items() if match_known(known, k2) is d["entry"])))

    rdir = os.path.join(os.environ.get("VMON_REPLAY_DIR") or os.path.join(HOME, "replay"), pid)
    written = []
    if new and replay_of is None:
        os.makedirs(rdir, exist_ok=True)
        for v in new:
            path = os.path.join(rdir, "%s-%s.json" % (digest(v["case"]), digest(v["violation"]["key"])[:6]))
            with open(path, "w") as f:
                f.write(jdump({"property": pid, "seed": seed, "tier": tier, "index": v["index"], "case": v["case"],
                               "violation": v["violation"]}, indent=1))
            written.append((v, path))
    for v, path in written:
        lines.append("VIOLATION property=%s replay=%s key=%s :: %s" % (pid, path, v["violation"]["key"], v["violation"]["msg"]))
    if replay_of is not None:
        for v in new:
            lines.append("VIOLATION property=%s replay=%s key=%s :: %s" % (pid, replay_of, v["violation"]["key"], v["violation"]["msg"]))

    # inconclusive reasons
    if merged["harness_errors"]:
        inconclusive.append("%d harness error(s); first: %s" % (
            len(merged["harness_errors"]), short(merged["harness_errors"][0].get("error", ""), 600)))
    if replay_of is None:
        if merged["n"] == 0:
            inconclusive.append("no case was run")
        for m in getattr(prop, "REQUIRED_MONITORS", []):
            if merged["monitors"].get(m, 0) == 0:
                inconclusive.append("deciding monitor %r was never evaluated" % m)
        for r in getattr(prop, "REQUIRED_REACH", []):
            if not any(r in k for k in merged["reach"]):
                inconclusive.append("anchored mechanism %r was never reached" % r)
        if merged["timeouts"] > max(2, 0.05 * merged["n"]):
            inconclusive.append("%d of %d cases hit the per-case watchdog" % (merged["timeouts"], merged["n"]))
        if len(merged["nontrivial"]) < 2:
            inconclusive.append("fewer than 2 distinct non-trivial cases")

    if new_keys:
        verdict, code = "violated", EXIT_VIOLATED
    elif inconclusive:
        verdict, code = "inconclusive", EXIT_INCONCLUSIVE
    else:
        verdict, code = "held", EXIT_HELD

    if replay_of is None:
        coverage = {
            "evaluations": merged["n"],
            "distinct_nontrivial": len(merged["nontrivial"]),
            "rule": prop.RULE,
            "samples": merged["samples"] or [{"note": "no non-trivial violation-free sample"}],
            "exhaustive": bool(getattr(prop, "EXHAUSTIVE", {}).get(tier, False)) and not merged["truncated"],
            "monitor_evaluations": dict(sorted(merged["monitors"].items())),
            "workload_tags": dict(sorted(merged["tags"].items())),
            "reach": dict(sorted(merged["reach"].items())),
            "case_status": dict(merged["status"]),
            "env_skipped": dict(merged["env_skipped"]),
            "ambiguous_excluded": merged["ambiguous"],
            "timeouts": merged["timeouts"],
            "truncated_by_time_budget": merged["truncated"],
            "known_findings_seen": {k: {"text": d["entry"].get("text", ""),
                                        "count": sum(c for k2, c in merged["vcount"].items()
                                                     if match_known(known, k2) is d["entry"])}
                                    for k, d in known_seen.items()},
            "new_violation_keys": {k: merged["vcount"][k] for k in new_keys},
            "side_observations": dict(merged["side"]),
            "not_covered": list(getattr(prop, "NOT_COVERED", [])),
            "verdict": verdict,
            "inconclusive_reasons": inconclusive,
        }
        coverage.update(info)
        ev = {
            "property_id": pid, "tier": tier, "seed": int(seed), "level": prop.LEVEL, "coverage": coverage,
            "assumptions": list(getattr(prop, "ASSUMPTIONS", [])) + COMMON_ASSUMPTIONS,
            "wall_s": round(wall_s, 2), "violations": int(sum(merged["vcount"][k] for k in new_keys)),
        }
        evdir = os.environ.get("VMON_EVIDENCE_DIR") or os.path.join(HOME, "evidence")
        os.makedirs(evdir, exist_ok=True)
        with open(os.path.join(evdir, pid + ".json"), "w") as f:
            f.write(jdump(ev, indent=1))
            f.write("\n")

    for ln in lines:
        print(ln)
    for r in inconclusive:
        print("INCONCLUSIVE property=%s reason=%s" % (pid, short(r, 900)))
    print("%s property=%s tier=%s seed=%s cases=%d nontrivial=%d monitors=%d known=%d new=%d wall=%.1fs" % (
        verdict.upper(), pid, tier, seed, merged["n"], len(merged["nontrivial"]), sum(merged["monitors"].values()),
        len(known_seen), len(new_keys), wall_s))
    return code


COMMON_ASSUMPTIONS = [
    "the third-party compatibility layer /verif/lib/vcompat.py (restores pandas-1/numpy-1/sklearn-0.24 names) is trusted and self-tested at start",
    "held means: held on the executions listed under coverage; nothing is claimed about inputs or paths not driven",
]
