"""Entry point:  python -m vmon.run CXX [--tier quick|thorough] [--replay F] [--jobs N] [--limit N]"""
import argparse
import json
import os
import sys
import time

from vmon import core


def main(argv=None):
    ap = argparse.ArgumentParser()
    ap.add_argument("pid")
    ap.add_argument("--tier", default=os.environ.get("VERIF_TIER", "quick"), choices=["quick", "thorough"])
    ap.add_argument("--replay")
    ap.add_argument("--jobs", type=int)
    ap.add_argument("--limit", type=int)
    ap.add_argument("--shard")
    ap.add_argument("--out")
    a = ap.parse_args(argv)
    pid = a.pid.upper()
    seed = int(os.environ.get("VERIF_SEED", "0") or 0)
    t0 = time.time()

    try:
        info = core.preflight(selftest=(a.shard is None))
    except core.Inconclusive as e:
        print("INCONCLUSIVE property=%s reason=%s" % (pid, e))
        return core.EXIT_INCONCLUSIVE
    prop = core.load_prop(pid)

    if a.shard:  # worker
        s, n = (int(x) for x in a.shard.split("/"))
        res = core.run_shard(prop, a.tier, seed, s, n, a.limit, getattr(prop, "CASE_TIMEOUT", {}).get(a.tier, 120.0))
        with open(a.out, "w") as f:
            f.write(core.jdump(res))
        return 0

    if a.replay:
        with open(a.replay) as f:
            rp = json.load(f)
        core.install_contracts(prop)
        if hasattr(prop, "setup"):
            prop.setup()
        ctx, status = core.run_one(prop, rp["case"], rp.get("index", -1), 600.0)
        merged = core.merge([])
        merged["n"] = 1
        for v in ctx.violations:
            if hasattr(prop, "classify"):
                v["key"] = prop.classify(v, rp["case"]) or v["key"]
            merged["vcount"][v["key"]] += 1
            merged["violations"].append({"index": rp.get("index", -1), "case": rp["case"], "violation": v})
            print("  witness: %s" % core.jdump(v)[:1500])
        if status == "harness_error":
            merged["harness_errors"].append({"error": ctx.harness_error})
        print("  observed events: %s" % core.jdump(ctx.events)[:2000])
        return core.finish(prop, a.tier, seed, merged, [], info, time.time() - t0, replay_of=a.replay)

    jobs = a.jobs or getattr(prop, "JOBS", {}).get(a.tier, 1)
    problems = []
    # replay files describe the current run only
    rdir = os.path.join(os.environ.get("VMON_REPLAY_DIR") or os.path.join(core.HOME, "replay"), pid)
    if os.path.isdir(rdir):
        for fn in os.listdir(rdir):
            if fn.endswith(".json"):
                os.unlink(os.path.join(rdir, fn))
    if jobs <= 1:
        results = [core.run_shard(prop, a.tier, seed, 0, 1, a.limit, getattr(prop, "CASE_TIMEOUT", {}).get(a.tier, 120.0))]
    else:
        results, problems = core.spawn_shards(pid, a.tier, seed, jobs, a.limit,
                                              getattr(prop, "WORKER_TIMEOUT", {}).get(a.tier, 3000.0))
    merged = core.merge(results)
    return core.finish(prop, a.tier, seed, merged, problems, info, time.time() - t0)


if __name__ == "__main__":
    sys.exit(main())
