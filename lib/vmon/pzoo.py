"""Registry of runnable panel estimators (transformers, classifiers, regressors) built from JSON-able names."""
import numpy as np
import pandas as pd

TRANSFORMERS = ["padder", "padder20", "truncate", "truncate2_6", "interp7", "tabularizer", "concat", "paa3", "paa5", "dwt", "hog1d", "pca2", "iseg3", "iseg_arr",
                "rseg", "slide3", "slide4", "slope3", "derslope", "plateau", "rife", "rife3", "row_log", "row_cos", "row_mean", "sfa", "sax",
                # the same transformers under their other interval options
                "rseg_rand", "rseg_log", "rseg_sqrt", "rseg_frac", "rife_rand", "rife_sqrt", "slide1",
                # ... and with interval length bounds (unit-length intervals) and user functions without an `axis` argument
                "rseg_len1", "rseg_maxlen", "rife_fn_len1", "rife_fn"]
CLASSIFIERS = ["tsf", "rise", "stsf", "boss", "iboss", "cboss", "muse", "colens", "colens2"]
REGRESSORS = ["tsfreg"]
MULTIVARIATE_OK = {"padder", "padder20", "truncate", "truncate2_6", "interp7", "tabularizer", "concat", "paa3", "paa5", "dwt", "hog1d", "slope3", "derslope", "row_log", "row_cos",
                   "row_mean", "muse", "colens", "colens2"}
NEEDS_MULTI = {"colens2"}
SUPERVISED_T = {"sfa"}
MIN_LEN = {"rise": 24, "hog1d": 16, "sfa": 12, "sax": 12, "boss": 16, "iboss": 16, "cboss": 16, "muse": 16, "stsf": 20, "dwt": 8, "paa5": 5, "interp7": 2, "truncate2_6": 7}


# other values for constructor options of the panel estimators (a flipped boolean flag is always a candidate)
OPTION_POOL = {"n_intervals": ["random", "log", "sqrt", 0.4, 3, 6], "min_length": [1, 2, 3], "max_length": [2, 4], "min_interval": [4, 6], "acf_lag": [5, 20], "acf_min_values": [2],
               "word_length": [2, 6], "alphabet_size": [2, 5], "window_size": [5, 8], "binning_method": ["equi-width", "equi-depth"], "num_intervals": [2, 4], "n_components": [1, 3],
               "num_levels": [2], "fill_value": [-5.0], "threshold": [0.5, 1.0], "max_ensemble_size": [1, 5], "max_win_len_prop": [0.5], "min_window": [5], "n_parameter_samples": [3, 8],
               "window_inc": [2], "value": [0.0], "window_length": [2, 6], "n_estimators": [1, 2, 7], "num_bins": [4], "scaling_factor": [0.5]}


def random_variant(rng, est):
    """set one constructor option of `est` to another value; returns a description or None when the estimator has no such option"""
    try:
        params = est.get_params(deep=False)
    except Exception:  # noqa
        return None
    cands = [(k, not v) for k, v in params.items() if isinstance(v, bool)]
    cands += [(k, v2) for k in params if k in OPTION_POOL for v2 in OPTION_POOL[k] if not (isinstance(params[k], type(v2)) and params[k] == v2)]
    if not cands:
        return None
    k, v = cands[int(rng.integers(0, len(cands)))]
    try:
        est.set_params(**{k: v})
    except Exception:  # noqa
        return None
    return "%s=%r" % (k, v)


def _first_value(x):
    """a user feature of one series (no `axis` argument)"""
    return float(np.asarray(x).ravel()[0])


def _value_range(x):
    x = np.asarray(x, dtype=float).ravel()
    return float(x.max() - x.min())


def build(name, seed=0):
    if name == "padder":
        from sktime.transformations.panel.padder import PaddingTransformer
        return PaddingTransformer()
    if name == "padder20":
        from sktime.transformations.panel.padder import PaddingTransformer
        return PaddingTransformer(pad_length=60, fill_value=-1)
    if name == "truncate":
        from sktime.transformations.panel.truncation import TruncationTransformer
        return TruncationTransformer()
    if name == "truncate2_6":
        from sktime.transformations.panel.truncation import TruncationTransformer
        return TruncationTransformer(lower=2, upper=6)
    if name == "interp7":
        from sktime.transformations.panel.interpolate import TSInterpolator
        return TSInterpolator(7)
    if name == "tabularizer":
        from sktime.transformations.panel.reduce import Tabularizer
        return Tabularizer()
    if name == "concat":
        from sktime.transformations.panel.compose import ColumnConcatenator
        return ColumnConcatenator()
    if name in ("paa3", "paa5"):
        from sktime.transformations.panel.dictionary_based import PAA
        return PAA(num_intervals=int(name[3:]))
    if name == "dwt":
        from sktime.transformations.panel.dwt import DWTTransformer
        return DWTTransformer()
    if name == "hog1d":
        from sktime.transformations.panel.hog1d import HOG1DTransformer
        return HOG1DTransformer()
    if name == "pca2":
        from sktime.transformations.panel.pca import PCATransformer
        return PCATransformer(n_components=2)
    if name == "iseg3":
        from sktime.transformations.panel.segment import IntervalSegmenter
        return IntervalSegmenter(3)
    if name == "iseg_arr":
        from sktime.transformations.panel.segment import IntervalSegmenter
        return IntervalSegmenter(np.array([[0, 4], [2, 9], [5, 8]]))
    if name == "rseg":
        from sktime.transformations.panel.segment import RandomIntervalSegmenter
        return RandomIntervalSegmenter(n_intervals=3, random_state=seed)
    if name in ("rseg_rand", "rseg_log", "rseg_sqrt", "rseg_frac"):
        from sktime.transformations.panel.segment import RandomIntervalSegmenter
        return RandomIntervalSegmenter(n_intervals={"rand": "random", "log": "log", "sqrt": "sqrt", "frac": 0.4}[name[5:]], random_state=seed)
    if name in ("rife_rand", "rife_sqrt"):
        from sktime.transformations.panel.summarize import RandomIntervalFeatureExtractor
        return RandomIntervalFeatureExtractor(n_intervals={"rand": "random", "sqrt": "sqrt"}[name[5:]], random_state=seed)
    if name in ("rseg_len1", "rseg_maxlen"):
        from sktime.transformations.panel.segment import RandomIntervalSegmenter
        return RandomIntervalSegmenter(n_intervals=6, random_state=seed, **({"min_length": 1, "max_length": 2} if name == "rseg_len1" else {"max_length": 4}))
    if name in ("rife_fn_len1", "rife_fn"):
        from sktime.transformations.panel.summarize import RandomIntervalFeatureExtractor
        return RandomIntervalFeatureExtractor(n_intervals=6, features=[_first_value, _value_range, np.mean], random_state=seed,
                                              **({"min_length": 1, "max_length": 2} if name == "rife_fn_len1" else {}))
    if name in ("slide1", "slide3", "slide4"):
        from sktime.transformations.panel.segment import SlidingWindowSegmenter
        return SlidingWindowSegmenter(int(name[5:]))
    if name == "slope3":
        from sktime.transformations.panel.slope import SlopeTransformer
        return SlopeTransformer(num_intervals=3)
    if name == "derslope":
        from sktime.transformations.panel.summarize import DerivativeSlopeTransformer
        return DerivativeSlopeTransformer()
    if name == "plateau":
        from sktime.transformations.panel.summarize import PlateauFinder
        return PlateauFinder(value=0.0, min_length=2)
    if name in ("rife", "rife3"):
        from sktime.transformations.panel.summarize import RandomIntervalFeatureExtractor
        from sktime.utils.slope_and_trend import _slope
        return RandomIntervalFeatureExtractor(n_intervals=3, features=[np.mean, np.std, _slope] if name == "rife3" else None, random_state=seed)
    if name.startswith("row_"):
        from sktime.transformations.panel.compose import SeriesToPrimitivesRowTransformer, SeriesToSeriesRowTransformer
        if name == "row_mean":
            from sktime.transformations.series.summarize import MeanTransformer
            return SeriesToPrimitivesRowTransformer(MeanTransformer())
        if name == "row_log":
            from sktime.transformations.series.boxcox import LogTransformer
            return SeriesToSeriesRowTransformer(LogTransformer())
        if name == "row_cos":
            from sktime.transformations.series.cos import CosineTransformer
            return SeriesToSeriesRowTransformer(CosineTransformer())
        from sktime.transformations.series.detrend import Detrender
        return SeriesToSeriesRowTransformer(Detrender())
    if name == "sfa":
        from sktime.transformations.panel.dictionary_based import SFA
        return SFA(word_length=4, window_size=6, alphabet_size=3)
    if name == "sax":
        from sktime.transformations.panel.dictionary_based import SAX
        return SAX(word_length=4, window_size=6, alphabet_size=3)
    # ---- classifiers / regressors ---------------------------------------------------------------
    if name == "tsf":
        from sktime.classification.interval_based import TimeSeriesForestClassifier
        return TimeSeriesForestClassifier(n_estimators=5, random_state=seed)
    if name == "tsfreg":
        from sktime.regression.interval_based import TimeSeriesForestRegressor
        return TimeSeriesForestRegressor(n_estimators=5, random_state=seed)
    if name == "rise":
        from sktime.classification.interval_based import RandomIntervalSpectralForest
        return RandomIntervalSpectralForest(n_estimators=4, random_state=seed)
    if name == "stsf":
        from sktime.classification.interval_based import SupervisedTimeSeriesForest
        return SupervisedTimeSeriesForest(n_estimators=4, random_state=seed)
    if name == "boss":
        from sktime.classification.dictionary_based import BOSSEnsemble
        return BOSSEnsemble(max_ensemble_size=3, random_state=seed)
    if name == "iboss":
        from sktime.classification.dictionary_based import IndividualBOSS
        return IndividualBOSS(window_size=6, word_length=4, random_state=seed)
    if name == "cboss":
        from sktime.classification.dictionary_based import ContractableBOSS
        return ContractableBOSS(n_parameter_samples=5, max_ensemble_size=3, random_state=seed)
    if name == "muse":
        from sktime.classification.dictionary_based import MUSE
        return MUSE(window_inc=4, random_state=seed)
    if name in ("colens", "colens2"):
        from sktime.classification.compose import ColumnEnsembleClassifier
        from sktime.classification.interval_based import TimeSeriesForestClassifier
        members = [("tsf0", TimeSeriesForestClassifier(n_estimators=3, random_state=seed), [0])]
        if name == "colens2":
            members.append(("tsf1", TimeSeriesForestClassifier(n_estimators=4, random_state=seed + 1), [1]))
        return ColumnEnsembleClassifier(members)
    raise ValueError(name)


UNEQUAL_OK = {"padder", "padder20", "truncate", "truncate2_6", "interp7"}     # transformers documented for panels of unequal-length series


def make_panel(rng, ni, nc, nt, cells="S", positive=False, plateaus=False, classes=2, lengths=None, integer=False, cell_index="default"):
    """class-separable panel: class k adds a sinusoid of frequency k+1; returns (nested DataFrame, class index array, 3-d array);
    lengths: per-instance series lengths (<= nt) for an unequal-length panel (the 3-d array is None then)"""
    cls = rng.integers(0, classes, size=ni)
    cls[:classes] = np.arange(classes)          # every class present
    t = np.arange(nt)
    arr = np.zeros((ni, nc, nt))
    for i in range(ni):
        for j in range(nc):
            arr[i, j] = np.sin((cls[i] + 1) * 2 * np.pi * t / nt + j) * 2 + rng.normal(0, 0.5, nt) + 0.05 * t * (cls[i] - 0.5)
    if positive:
        arr = np.abs(arr) + 1.0
    if plateaus:
        for i in range(ni):
            s = int(rng.integers(0, nt - 4))
            arr[i, :, s:s + int(rng.integers(2, 4))] = 0.0
    arr = np.round(arr, 6)
    if integer == "int16":
        arr = np.round(arr * 1000).astype(np.int16)     # narrow integer type, values in the thousands (products with the time index leave its range)
    elif integer:
        arr = np.round(arr * 10).astype(np.int64)       # integer-typed panel (counts)
    cont = (lambda v: pd.Series(v)) if cells == "S" else (lambda v: np.array(v))
    if cells == "S" and cell_index != "default":
        # Series cells that carry their own time index (1-based / starting elsewhere): positions, not labels, are the time points
        start = 1 if cell_index == "one-based" else 100
        cont = lambda v: pd.Series(v, index=pd.RangeIndex(start, start + len(v)))  # noqa
    if lengths is not None:
        df = pd.DataFrame({"dim_%d" % j: [cont(arr[i, j, :int(lengths[i])].copy()) for i in range(ni)] for j in range(nc)})
        return df, cls, None
    df = pd.DataFrame({"dim_%d" % j: [cont(arr[i, j].copy()) for i in range(ni)] for j in range(nc)})
    return df, cls, arr


def canon(out):
    """canonical form of an estimator output: list (one entry per instance) of hashable-comparable values"""
    if isinstance(out, list):              # SFA: list of bags (dicts), one per instance (possibly wrapped per dimension)
        if out and isinstance(out[0], list):
            out = out[0]
        return [("bag", tuple(sorted((int(k), int(v)) for k, v in dict(b).items()))) for b in out]
    if isinstance(out, pd.DataFrame) and len(out) and any(isinstance(c, dict) for c in out.iloc[0]):
        # bags of words in a frame (one dict per cell)
        return [[("bag", tuple(sorted((int(k), int(v)) for k, v in dict(c).items()))) if isinstance(c, dict) else ("cell", repr(c)) for c in out.iloc[i]] for i in range(len(out))]
    if isinstance(out, pd.DataFrame) and not any(isinstance(c, (pd.Series, np.ndarray, list)) for c in (out.iloc[0] if len(out) else [])):
        return [[np.asarray(r, dtype=float).ravel()] for r in out.to_numpy()]     # plain table: one vector per instance
    if isinstance(out, pd.DataFrame):
        rows = []
        for i in range(out.shape[0]):
            row = []
            for j in range(out.shape[1]):
                c = out.iloc[i, j]
                if isinstance(c, (pd.Series, np.ndarray, list)):
                    row.append(np.asarray(c, dtype=float).ravel())
                else:
                    row.append(np.array([float(c)]))
            rows.append(row)
        return rows
    if isinstance(out, pd.Series):
        out = out.values
    a = np.asarray(out)
    if a.dtype.kind in "OUS":
        return [("label", str(v)) for v in a.ravel()] if a.ndim == 1 else [[np.array([hash(str(v)) % 1000 for v in r], dtype=float)] for r in a]
    if a.ndim == 1:
        return [[np.array([float(v)])] for v in a]
    return [[np.asarray(r, dtype=float).ravel()] for r in a]


def rows_equal(r1, r2, tol=1e-9):
    if isinstance(r1, tuple) or isinstance(r2, tuple):
        return r1 == r2
    if len(r1) != len(r2):
        return False
    for a, b in zip(r1, r2):
        if isinstance(a, tuple) or isinstance(b, tuple):
            if a != b:
                return False
            continue
        if a.shape != b.shape or not np.allclose(a, b, rtol=tol, atol=tol, equal_nan=True):
            return False
    return True
