"""Always-on runtime contracts installed from the harness on the real classes.

Conditions *record and return True* (record-and-continue): a raising contract inside a
composite would abort what it observes or be swallowed by a try/except in the code under
test.  The per-case runner folds the recorded evaluations into the case context; events
of a property other than the one being checked become side observations.
"""
from collections import Counter

import numpy as np
import pandas as pd


class Recorder:
    def __init__(self):
        self.reset()

    def reset(self):
        self.counters = Counter()
        self.violations = []

    def record(self, pid, monitor, cond, key, msg, **detail):
        self.counters[(pid, monitor)] += 1
        if not cond and len(self.violations) < 50:
            self.violations.append({"property": pid, "key": key, "msg": msg, "detail": detail})
        return bool(cond)


REC = Recorder()
_installed = set()


def fold_into(ctx):
    """Move what the contracts recorded during a case into the case context."""
    for (pid, mon), n in REC.counters.items():
        if pid == ctx.pid:
            ctx.monitors["contract:" + mon] += n
        else:
            ctx.tags["foreign-contract:%s:%s" % (pid, mon)] += n
    for v in REC.violations:
        if v["property"] == ctx.pid:
            ctx.violation(v["key"], v["msg"], **v["detail"])
        else:
            ctx.foreign(v["property"], v["key"], v["msg"])
    REC.reset()


# ---------------------------------------------------------------------------------
# ForecastingHorizon: class invariant (icontract) + conversion laws (postconditions)
# ---------------------------------------------------------------------------------
def _is_int_index(idx):
    return isinstance(idx, pd.Index) and idx.dtype.kind in "iu"


def _is_int(x):
    return isinstance(x, (int, np.integer)) and not isinstance(x, bool)


def fh_invariant(self):
    v = getattr(self, "_values", None)
    if v is None:  # during construction
        return True
    if not isinstance(v, pd.Index):
        REC.record("C02", "fh.invariant", False, "fh:stored-values-not-an-index", "stored values are %r" % type(v))
        return True
    if v.dtype.kind in "iu":
        vals = [int(x) for x in v]
        REC.record("C02", "fh.invariant", vals == sorted(set(vals)) and isinstance(self._is_relative, bool),
                   "fh:stored-not-sorted-or-duplicate", "stored horizon values are not strictly increasing", values=vals[:20])
    elif v.dtype.kind == "f" and len(v):
        REC.record("C02", "fh.invariant", False, "fh:float-values-stored", "non-integer dtype stored", values=list(v)[:10])
    return True


def install_fh_contracts():
    if "fh" in _installed:
        return
    _installed.add("fh")
    import functools

    import icontract
    from sktime.forecasting.base._fh import ForecastingHorizon as FH

    class InvariantBroken(Exception):
        pass

    icontract.invariant(fh_invariant, error=InvariantBroken)(FH)

    def wrap(name, post):
        orig = getattr(FH, name)

        @functools.wraps(orig)
        def w(self, *a, **k):
            out = orig(self, *a, **k)
            try:
                post(self, out, *a, **k)
            except Exception as e:  # monitor must never disturb the code under test
                REC.counters[("C02", "fh.monitor-error:" + type(e).__name__)] += 1
            return out

        setattr(FH, name, w)

    def post_abs(self, out, cutoff=None):
        if self.is_relative and _is_int_index(self._values) and _is_int(cutoff):
            exp = [int(cutoff) + int(v) for v in self._values]
            got = [int(v) for v in out.to_pandas()]
            REC.record("C02", "fh.to_absolute", got == exp and out.is_relative is False, "fh:to_absolute-not-cutoff-plus-steps",
                       "to_absolute(cutoff) != cutoff + steps", steps=[int(v) for v in self._values][:10], cutoff=int(cutoff), got=got[:10])

    def post_rel(self, out, cutoff=None):
        if (not self.is_relative) and _is_int_index(self._values) and _is_int(cutoff):
            exp = [int(v) - int(cutoff) for v in self._values]
            got = [int(v) for v in out.to_pandas()]
            REC.record("C02", "fh.to_relative", got == exp and out.is_relative is True, "fh:to_relative-not-values-minus-cutoff",
                       "to_relative(cutoff) != values - cutoff", values=[int(v) for v in self._values][:10], cutoff=int(cutoff), got=got[:10])

    def _rel(self, cutoff):
        if not _is_int_index(self._values):
            return None
        if self.is_relative:
            return [int(v) for v in self._values]
        if _is_int(cutoff):
            return [int(v) - int(cutoff) for v in self._values]
        return None

    def post_indexer(self, out, cutoff=None, from_cutoff=True):
        rel = _rel(self, cutoff)
        if rel is not None and from_cutoff:
            got = [int(v) for v in out]
            REC.record("C02", "fh.to_indexer", got == [r - 1 for r in rel], "fh:indexer-not-steps-minus-one",
                       "to_indexer != steps - 1", steps=rel[:10], got=got[:10])

    def post_ins(self, out, cutoff=None):
        rel = _rel(self, cutoff)
        if rel is not None:
            exp = [int(v) for v, r in zip(self._values, rel) if r <= 0]
            REC.record("C02", "fh.to_in_sample", [int(v) for v in out.to_pandas()] == exp, "fh:in-sample-part-wrong",
                       "in-sample part is not the steps <= 0", steps=rel[:10], got=[int(v) for v in out.to_pandas()][:10])

    def post_oos(self, out, cutoff=None):
        rel = _rel(self, cutoff)
        if rel is not None:
            exp = [int(v) for v, r in zip(self._values, rel) if r > 0]
            REC.record("C02", "fh.to_out_of_sample", [int(v) for v in out.to_pandas()] == exp, "fh:out-of-sample-part-wrong",
                       "out-of-sample part is not the steps > 0", steps=rel[:10], got=[int(v) for v in out.to_pandas()][:10])

    def post_all_in(self, out, cutoff=None):
        rel = _rel(self, cutoff)
        if rel is not None:
            REC.record("C02", "fh.is_all_in_sample", bool(out) == all(r <= 0 for r in rel), "fh:is_all_in_sample-wrong",
                       "is_all_in_sample disagrees with the partition at 0", steps=rel[:10], got=bool(out))

    def post_all_out(self, out, cutoff=None):
        rel = _rel(self, cutoff)
        if rel is not None:
            REC.record("C02", "fh.is_all_out_of_sample", bool(out) == all(r > 0 for r in rel), "fh:is_all_out_of_sample-wrong",
                       "is_all_out_of_sample disagrees with the partition at 0", steps=rel[:10], got=bool(out))

    wrap("to_absolute", post_abs)
    wrap("to_relative", post_rel)
    wrap("to_indexer", post_indexer)
    wrap("to_in_sample", post_ins)
    wrap("to_out_of_sample", post_oos)
    wrap("is_all_in_sample", post_all_in)
    wrap("is_all_out_of_sample", post_all_out)


def install_all():
    install_fh_contracts()
