"""Always-on runtime contracts installed from the harness on the real classes.

Conditions *record and return True* (record-and-continue): a raising contract inside a
composite would abort what it observes or be swallowed by a try/except in the code under
test.  The per-case runner folds the recorded evaluations into the case context; events
of a property other than the one being checked become side observations.
"""
from collections import Counter

import numpy as np
import pandas as pd


class Recorder:
    def __init__(self):
        self.reset()

    def reset(self):
        self.counters = Counter()
        self.violations = []

    def record(self, pid, monitor, cond, key, msg, **detail):
        self.counters[(pid, monitor)] += 1
        if not cond and len(self.violations) < 50:
            self.violations.append({"property": pid, "key": key, "msg": msg, "detail": detail})
        return bool(cond)


REC = Recorder()
_installed = set()


def fold_into(ctx):
    """Move what the contracts recorded during a case into the case context."""
    for (pid, mon), n in REC.counters.items():
        if pid == ctx.pid:
            ctx.monitors["contract:" + mon] += n
        else:
            ctx.tags["foreign-contract:%s:%s" % (pid, mon)] += n
    for v in REC.violations:
        if v["property"] == ctx.pid:
            ctx.violation(v["key"], v["msg"], **v["detail"])
        else:
            ctx.foreign(v["property"], v["key"], v["msg"])
    REC.reset()


# ---------------------------------------------------------------------------------
# ForecastingHorizon: class invariant (icontract) + conversion laws (postconditions)
# ---------------------------------------------------------------------------------
def _is_int_index(idx):
    return isinstance(idx, pd.Index) and idx.dtype.kind in "iu"


def _is_int(x):
    return isinstance(x, (int, np.integer)) and not isinstance(x, bool)


def fh_invariant(self):
    v = getattr(self, "_values", None)
    if v is None:  # during construction
        return True
    if not isinstance(v, pd.Index):
        REC.record("C02", "fh.invariant", False, "fh:stored-values-not-an-index", "stored values are %r" % type(v))
        return True
    if v.dtype.kind in "iu":
        vals = [int(x) for x in v]
        REC.record("C02", "fh.invariant", vals == sorted(set(vals)) and isinstance(self._is_relative, bool),
                   "fh:stored-not-sorted-or-duplicate", "stored horizon values are not strictly increasing", values=vals[:20])
    elif v.dtype.kind == "f" and len(v):
        REC.record("C02", "fh.invariant", False, "fh:float-values-stored", "non-integer dtype stored", values=list(v)[:10])
    return True


def install_fh_contracts():
    if "fh" in _installed:
        return
    _installed.add("fh")
    import functools

    import icontract
    from sktime.forecasting.base._fh import ForecastingHorizon as FH

    class InvariantBroken(Exception):
        pass

    icontract.invariant(fh_invariant, error=InvariantBroken)(FH)

    def wrap(name, post):
        orig = getattr(FH, name)

        @functools.wraps(orig)
        def w(self, *a, **k):
            out = orig(self, *a, **k)
            try:
                post(self, out, *a, **k)
            except Exception as e:  # monitor must never disturb the code under test
                REC.counters[("C02", "fh.monitor-error:" + type(e).__name__)] += 1
            return out

        setattr(FH, name, w)

    def post_abs(self, out, cutoff=None):
        if self.is_relative and _is_int_index(self._values) and _is_int(cutoff):
            exp = [int(cutoff) + int(v) for v in self._values]
            got = [int(v) for v in out.to_pandas()]
            REC.record("C02", "fh.to_absolute", got == exp and out.is_relative is False, "fh:to_absolute-not-cutoff-plus-steps",
                       "to_absolute(cutoff) != cutoff + steps", steps=[int(v) for v in self._values][:10], cutoff=int(cutoff), got=got[:10])

    def post_rel(self, out, cutoff=None):
        if (not self.is_relative) and _is_int_index(self._values) and _is_int(cutoff):
            exp = [int(v) - int(cutoff) for v in self._values]
            got = [int(v) for v in out.to_pandas()]
            REC.record("C02", "fh.to_relative", got == exp and out.is_relative is True, "fh:to_relative-not-values-minus-cutoff",
                       "to_relative(cutoff) != values - cutoff", values=[int(v) for v in self._values][:10], cutoff=int(cutoff), got=got[:10])

    def _rel(self, cutoff):
        if not _is_int_index(self._values):
            return None
        if self.is_relative:
            return [int(v) for v in self._values]
        if _is_int(cutoff):
            return [int(v) - int(cutoff) for v in self._values]
        return None

    def post_indexer(self, out, cutoff=None, from_cutoff=True):
        rel = _rel(self, cutoff)
        if rel is not None and from_cutoff:
            got = [int(v) for v in out]
            REC.record("C02", "fh.to_indexer", got == [r - 1 for r in rel], "fh:indexer-not-steps-minus-one",
                       "to_indexer != steps - 1", steps=rel[:10], got=got[:10])

    def post_ins(self, out, cutoff=None):
        rel = _rel(self, cutoff)
        if rel is not None:
            exp = [int(v) for v, r in zip(self._values, rel) if r <= 0]
            REC.record("C02", "fh.to_in_sample", [int(v) for v in out.to_pandas()] == exp, "fh:in-sample-part-wrong",
                       "in-sample part is not the steps <= 0", steps=rel[:10], got=[int(v) for v in out.to_pandas()][:10])

    def post_oos(self, out, cutoff=None):
        rel = _rel(self, cutoff)
        if rel is not None:
            exp = [int(v) for v, r in zip(self._values, rel) if r > 0]
            REC.record("C02", "fh.to_out_of_sample", [int(v) for v in out.to_pandas()] == exp, "fh:out-of-sample-part-wrong",
                       "out-of-sample part is not the steps > 0", steps=rel[:10], got=[int(v) for v in out.to_pandas()][:10])

    def post_all_in(self, out, cutoff=None):
        rel = _rel(self, cutoff)
        if rel is not None:
            REC.record("C02", "fh.is_all_in_sample", bool(out) == all(r <= 0 for r in rel), "fh:is_all_in_sample-wrong",
                       "is_all_in_sample disagrees with the partition at 0", steps=rel[:10], got=bool(out))

    def post_all_out(self, out, cutoff=None):
        rel = _rel(self, cutoff)
        if rel is not None:
            REC.record("C02", "fh.is_all_out_of_sample", bool(out) == all(r > 0 for r in rel), "fh:is_all_out_of_sample-wrong",
                       "is_all_out_of_sample disagrees with the partition at 0", steps=rel[:10], got=bool(out))

    wrap("to_absolute", post_abs)
    wrap("to_relative", post_rel)
    wrap("to_indexer", post_indexer)
    wrap("to_in_sample", post_ins)
    wrap("to_out_of_sample", post_oos)
    wrap("is_all_in_sample", post_all_in)
    wrap("is_all_out_of_sample", post_all_out)


def install_all():
    install_fh_contracts()


# ---------------------------------------------------------------------------------
# forecaster protocol monitors (re-entrant recording wrappers, see DESIGN section 1)
# ---------------------------------------------------------------------------------
def _fh_expected_index(fh_arg, self):
    """labels a forecast must carry: cutoff + steps (relative) or the requested labels (absolute)"""
    from sktime.forecasting.base._fh import ForecastingHorizon as FH

    cutoff = self.cutoff
    fh = fh_arg if fh_arg is not None else getattr(self, "_fh", None)
    if fh is None or not _is_int(cutoff):
        return None
    if isinstance(fh, FH):
        vals = fh.to_pandas()
        if not _is_int_index(vals):
            return None
        vals = [int(v) for v in vals]
        return [int(cutoff) + v for v in vals] if fh.is_relative else vals
    try:
        vals = sorted(int(v) for v in np.atleast_1d(np.asarray(fh)))
    except Exception:  # noqa
        return None
    return [int(cutoff) + v for v in vals]


def _val_digest(v, keep, depth=0):
    """value digest of one constructor parameter; sub-estimators by identity (their own parameters appear under their own deep key)"""
    if hasattr(v, "get_params") and not isinstance(v, type):
        keep.append(v)
        # a component handed over as a constructor argument stays what it was: same object, same attribute names (fitting it in place instead
        # of a clone adds learned attributes), same fitted flag
        try:
            names = tuple(sorted(vars(v)))
        except TypeError:
            names = ()
        return ("est", type(v).__name__, id(v), names, bool(getattr(v, "_is_fitted", False)))
    if isinstance(v, (list, tuple)):
        return (type(v).__name__,) + (tuple(_val_digest(x, keep, depth + 1) for x in v) if depth < 5 else (len(v),))
    if isinstance(v, dict):
        return ("dict",) + tuple((repr(k), _val_digest(x, keep, depth + 1)) for k, x in v.items())
    if isinstance(v, (np.ndarray, pd.Series, pd.DataFrame, pd.Index)):
        a = np.asarray(v)
        return ("arr", type(v).__name__, a.shape, a.dtype.str, a.tobytes() if a.dtype != object else repr(a.tolist()))
    if v is None or isinstance(v, (bool, int, float, str, bytes, np.generic)):
        return ("p", type(v).__name__, repr(v))
    if callable(v) and not hasattr(v, "__dict__"):
        return ("fn", id(v))
    if hasattr(v, "__dict__"):
        return ("o", type(v).__name__, repr(sorted((k, repr(x)) for k, x in vars(v).items())))
    return ("r", type(v).__name__, repr(v))


def _params_snapshot(est):
    """(shallow parameter objects, deep value digests): the shallow part sees a replaced object, the deep part sees a nested
    object modified in place (e.g. a tuner writing the winning configuration into the forecaster it was given)"""
    try:
        shallow = {k: v for k, v in est.get_params(deep=False).items()}
        keep = []
        deep = {k: _val_digest(v, keep) for k, v in est.get_params(deep=True).items()}
        return {"shallow": shallow, "deep": deep, "keep": keep}
    except Exception:  # noqa
        return None


def _same_param(a, b):
    if a is b:
        return True
    try:
        if isinstance(a, (np.ndarray, pd.Series, pd.DataFrame, pd.Index)) or isinstance(b, (np.ndarray, pd.Series, pd.DataFrame, pd.Index)):
            return type(a) is type(b) and np.array_equal(np.asarray(a), np.asarray(b))
        return bool(a == b)
    except Exception:  # noqa
        return False


def _sklearn_composite(est):
    try:
        from sklearn.pipeline import FeatureUnion, Pipeline
        return isinstance(est, (Pipeline, FeatureUnion))
    except Exception:  # noqa
        return False


def params_changed(before, after):
    """names of constructor parameters (own, then nested `a__b`) whose value differs between two snapshots"""
    ch = [k for k in before["shallow"] if k not in after["shallow"] or not _same_param(before["shallow"][k], after["shallow"][k])]
    for k, d in before["deep"].items():
        if k not in ch and (k not in after["deep"] or after["deep"][k] != d):
            ch.append(k)
    return ch


def _data_digest(obj):
    """cheap deep snapshot of caller data: values (NaN-aware), index labels, column labels, dtype"""
    if obj is None:
        return None
    if isinstance(obj, pd.Series):
        return ("S", obj.to_numpy(copy=True), list(obj.index), str(obj.dtype), obj.name)
    if isinstance(obj, pd.DataFrame):
        cells = obj.to_numpy(copy=True)
        if cells.dtype == object:
            cells = [[np.array(c, copy=True) if isinstance(c, (np.ndarray, pd.Series)) else c for c in row] for row in cells]
        return ("D", cells, list(obj.index), [str(d) for d in obj.dtypes], list(obj.columns))
    if isinstance(obj, np.ndarray):
        return ("A", obj.copy(), obj.dtype.str)
    return None


def _digest_equal(a, b):
    if a is None or b is None:
        return a is b
    if a[0] != b[0]:
        return False
    if a[0] == "A":
        return a[2] == b[2] and a[1].shape == b[1].shape and bool(np.array_equal(a[1], b[1], equal_nan=a[1].dtype.kind == "f"))
    if a[2] != b[2] or a[3] != b[3] or a[4] != b[4]:
        return False
    x, y = a[1], b[1]
    if isinstance(x, list):
        if len(x) != len(y):
            return False
        for r1, r2 in zip(x, y):
            for c1, c2 in zip(r1, r2):
                if isinstance(c1, np.ndarray):
                    if not (isinstance(c2, np.ndarray) and c1.shape == c2.shape and np.array_equal(c1, c2, equal_nan=c1.dtype.kind == "f")):
                        return False
                elif not (c1 is c2 or c1 == c2 or (c1 != c1 and c2 != c2)):
                    return False
        return True
    if x.shape != y.shape:
        return False
    try:
        return bool(np.array_equal(x, y, equal_nan=True))
    except TypeError:
        return bool(np.array_equal(x, y))


def install_forecaster_contracts():
    if "forecaster" in _installed:
        return
    _installed.add("forecaster")
    import functools
    import importlib

    for m in ("sktime.forecasting.naive", "sktime.forecasting.trend", "sktime.forecasting.exp_smoothing", "sktime.forecasting.ets",
              "sktime.forecasting.theta", "sktime.forecasting.compose", "sktime.forecasting.online_learning",
              "sktime.forecasting.model_selection"):
        try:
            importlib.import_module(m)
        except Exception:  # noqa
            pass
    from sktime.forecasting.base._sktime import _SktimeForecaster

    def all_subclasses(c):
        out = []
        for s in c.__subclasses__():
            out.append(s)
            out.extend(all_subclasses(s))
        return out

    def wrap_fit(cls, orig):
        @functools.wraps(orig)
        def fit(self, y, X=None, fh=None, **kw):
            before = _params_snapshot(self)
            dy, dX = _data_digest(y), _data_digest(X)
            out = orig(self, y, X, fh, **kw) if (kw or fh is not None or X is not None) else orig(self, y)
            try:
                cname = type(self).__name__
                REC.record("C04", "fit.returns-self", out is self, "fit:returns-not-self:" + cname, "fit did not return the estimator itself")
                REC.record("C04", "fit.sets-is_fitted", bool(self.is_fitted), "fit:is_fitted-not-set:" + cname, "is_fitted false after fit")
                after = _params_snapshot(self)
                if before is not None and after is not None:
                    changed = params_changed(before, after)
                    REC.record("C04", "fit.params-unchanged", not changed, "fit:changes-constructor-parameter:%s:%s" % (cname, ",".join(changed)),
                               "fit changed constructor parameter(s) %s" % changed)
                if isinstance(y, pd.Series) and len(y):
                    REC.record("C03", "fit.cutoff", self.cutoff == y.index[-1], "cutoff:not-last-training-point-after-fit:" + cname,
                               "cutoff after fit is not the last time point of the training series", cutoff=self.cutoff, last=y.index[-1])
                REC.record("C12", "fit.caller-data-unchanged", _digest_equal(dy, _data_digest(y)) and _digest_equal(dX, _data_digest(X)),
                           "fit:mutates-caller-data:" + cname, "fit modified the caller's data")
            except Exception as e:  # noqa
                REC.counters[("C03", "monitor-error:" + type(e).__name__)] += 1
            return out
        return fit

    def wrap_predict(cls, orig):
        @functools.wraps(orig)
        def predict(self, fh=None, X=None, *a, **kw):
            dX = _data_digest(X)
            out = orig(self, fh, X, *a, **kw)
            try:
                cname = type(self).__name__
                if isinstance(out, pd.Series):
                    exp = _fh_expected_index(fh, self)
                    if exp is not None:
                        got = [int(v) for v in out.index] if out.index.dtype.kind in "iu" else list(out.index)
                        REC.record("C03", "predict.index", got == exp, "predict:index-not-requested-horizon:" + cname,
                                   "forecast is not labelled cutoff + fh (relative) / by the requested time points (absolute)", got=got[:12],
                                   expected=exp[:12], cutoff=self.cutoff)
                REC.record("C12", "predict.caller-data-unchanged", _digest_equal(dX, _data_digest(X)), "predict:mutates-caller-data:" + cname,
                           "predict modified the caller's X")
            except Exception as e:  # noqa
                REC.counters[("C03", "monitor-error:" + type(e).__name__)] += 1
            return out
        return predict

    def wrap_update(cls, orig):
        @functools.wraps(orig)
        def update(self, y, X=None, *a, **kw):
            dy, dX = _data_digest(y), _data_digest(X)
            out = orig(self, y, X, *a, **kw)
            try:
                cname = type(self).__name__
                if isinstance(y, pd.Series) and len(y):
                    REC.record("C03", "update.cutoff", self.cutoff == y.index[-1], "cutoff:not-last-point-of-update-data:" + cname,
                               "cutoff after update is not the last time point of the data passed to update", cutoff=self.cutoff, last=y.index[-1])
                REC.record("C12", "update.caller-data-unchanged", _digest_equal(dy, _data_digest(y)) and _digest_equal(dX, _data_digest(X)),
                           "update:mutates-caller-data:" + cname, "update modified the caller's data")
            except Exception as e:  # noqa
                REC.counters[("C03", "monitor-error:" + type(e).__name__)] += 1
            return out
        return update

    for cls in [_SktimeForecaster] + all_subclasses(_SktimeForecaster):
        d = cls.__dict__
        if "fit" in d and callable(d["fit"]) and not getattr(d["fit"], "_vmon", False):
            w = wrap_fit(cls, d["fit"]); w._vmon = True; setattr(cls, "fit", w)
        if "predict" in d and callable(d["predict"]) and not getattr(d["predict"], "_vmon", False):
            w = wrap_predict(cls, d["predict"]); w._vmon = True; setattr(cls, "predict", w)
        if "update" in d and callable(d["update"]) and not getattr(d["update"], "_vmon", False):
            w = wrap_update(cls, d["update"]); w._vmon = True; setattr(cls, "update", w)


def install_all():
    install_fh_contracts()
    install_forecaster_contracts()


# ---------------------------------------------------------------------------------
# splitters: per-split safety invariants on every yielded item, in every workload (C01)
# ---------------------------------------------------------------------------------
def install_splitter_contracts():
    if "splitter" in _installed:
        return
    _installed.add("splitter")
    import functools

    from sktime.forecasting.model_selection._split import BaseSplitter

    orig = BaseSplitter.split

    @functools.wraps(orig)
    def split(self, y):
        n = len(y)
        for train, test in orig(self, y):
            try:
                tr = [int(v) for v in train]
                te = [int(v) for v in test]
                ok = (tr == list(range(tr[0], tr[0] + len(tr))) if tr else True) and all(0 <= v < n for v in tr + te) and (not tr or not te or max(tr) < min(te))
                REC.record("C01", "split.invariants", ok, "split:yielded-split-breaks-safety-invariant:" + type(self).__name__,
                           "a yielded split is not a contiguous in-range training window strictly before its in-range test positions", train=tr[-4:], test=te[:4], n=n)
            except Exception as e:  # noqa
                REC.counters[("C01", "monitor-error:" + type(e).__name__)] += 1
            yield train, test

    BaseSplitter.split = split


# ---------------------------------------------------------------------------------
# transformers / classifiers / regressors: fit protocol and caller-data snapshots (C04, C12)
# ---------------------------------------------------------------------------------
def install_estimator_contracts():
    if "estimator" in _installed:
        return
    _installed.add("estimator")
    import functools
    import importlib

    for m in ("sktime.transformations.series.boxcox", "sktime.transformations.series.detrend", "sktime.transformations.series.adapt",
              "sktime.transformations.series.compose", "sktime.transformations.series.impute", "sktime.transformations.series.outlier_detection",
              "sktime.transformations.series.cos", "sktime.transformations.series.acf", "sktime.transformations.panel.compose",
              "sktime.transformations.panel.padder", "sktime.transformations.panel.truncation", "sktime.transformations.panel.interpolate",
              "sktime.transformations.panel.reduce", "sktime.transformations.panel.segment", "sktime.transformations.panel.dictionary_based",
              "sktime.transformations.panel.summarize", "sktime.classification.interval_based", "sktime.classification.dictionary_based",
              "sktime.classification.compose", "sktime.regression.interval_based"):
        try:
            importlib.import_module(m)
        except Exception:  # noqa
            pass
    from sktime.classification.base import BaseClassifier
    from sktime.forecasting.base import BaseForecaster
    from sktime.regression.base import BaseRegressor
    from sktime.transformations.base import BaseTransformer

    def all_subclasses(c):
        out = []
        for s in c.__subclasses__():
            out.append(s)
            out.extend(all_subclasses(s))
        return out

    def wrap_fit(orig):
        @functools.wraps(orig)
        def fit(self, *a, **k):
            before = _params_snapshot(self)
            digs = [_data_digest(x) for x in a[:2]]
            out = orig(self, *a, **k)
            try:
                cname = type(self).__name__
                REC.record("C04", "fit.returns-self", out is self, "fit:returns-not-self:" + cname, "fit did not return the estimator itself")
                REC.record("C04", "fit.sets-is_fitted", bool(getattr(self, "is_fitted", True)), "fit:is_fitted-not-set:" + cname, "is_fitted false after fit")
                after = _params_snapshot(self)
                if before is not None and after is not None and not _sklearn_composite(self):
                    # (scikit-learn's Pipeline / FeatureUnion fit their steps in place by design, also under the package's subclasses: not judged)
                    changed = params_changed(before, after)
                    REC.record("C04", "fit.params-unchanged", not changed, "fit:changes-constructor-parameter:%s:%s" % (cname, ",".join(changed)),
                               "fit changed constructor parameter(s) %s" % changed)
                REC.record("C12", "fit.caller-data-unchanged", all(_digest_equal(d, _data_digest(x)) for d, x in zip(digs, a[:2])), "fit:mutates-caller-data:" + cname,
                           "fit modified the caller's data")
            except Exception as e:  # noqa
                REC.counters[("C04", "monitor-error:" + type(e).__name__)] += 1
            return out
        return fit

    def wrap_apply(orig, mname):
        @functools.wraps(orig)
        def apply(self, *a, **k):
            digs = [_data_digest(x) for x in a[:1]]
            out = orig(self, *a, **k)
            try:
                REC.record("C12", mname + ".caller-data-unchanged", all(_digest_equal(d, _data_digest(x)) for d, x in zip(digs, a[:1])),
                           "%s:mutates-caller-data:%s" % (mname, type(self).__name__), "%s modified the caller's data" % mname)
            except Exception as e:  # noqa
                REC.counters[("C12", "monitor-error:" + type(e).__name__)] += 1
            return out
        return apply

    seen = set()
    for base in (BaseTransformer, BaseClassifier, BaseRegressor):
        for cls in [base] + all_subclasses(base):
            if cls in seen or issubclass(cls, BaseForecaster):
                continue
            seen.add(cls)
            d = cls.__dict__
            if "fit" in d and callable(d["fit"]) and not getattr(d["fit"], "_vmon", False):
                w = wrap_fit(d["fit"]); w._vmon = True; setattr(cls, "fit", w)
            for mname in ("transform", "inverse_transform", "predict", "predict_proba"):
                f = d.get(mname)
                if f is not None and callable(f) and not getattr(f, "_vmon", False) and type(f).__name__ == "function":
                    w = wrap_apply(f, mname); w._vmon = True; setattr(cls, mname, w)


def install_all():
    install_fh_contracts()
    install_forecaster_contracts()
    install_splitter_contracts()
    install_estimator_contracts()
