"""Registry of runnable estimators, built from JSON-serialisable specs so that cases stay replayable.

Forecaster spec:  [kind, params, children...]
  ["naive", {"strategy": "last", "sp": 1, "window_length": None}]
  ["poly", {"degree": 1, "with_intercept": True}]
  ["es", {...}] ["ets", {...}] ["theta", {...}]
  ["reduce", {"strategy": "recursive", "window_length": 3, "reg": "lin"|"ridge"|"tree"|"knn"|"tsf"}]
  ["ensemble", {"aggfunc": "mean"}, [spec, ...]]
  ["pipeline", {}, [tspec, ...], spec]
  ["multiplex", {"selected": i}, [spec, ...]]
  ["stack", {"reg": "lin"}, [spec, ...]]
  ["grid", {"grid": {...}, "cv": cvspec, "scoring": name|None, "refit": True}, spec]
  ["online", {}, [spec, ...]]
Transformer spec: ["detrend", {"degree": 1}], ["deseason", {"sp": 4, "model": "additive"}], ["cdeseason", {...}],
  ["boxcox", {}], ["log", {}], ["scaler", {"which": "standard"|"minmax"}], ["optional", {"passthrough": False}, tspec],
  ["imputer", {"method": "mean"}], ["cos", {}]
CV spec: ["sliding"|"expanding"|"single", {...}]
"""
import numpy as np


def build_cv(spec):
    from sktime.forecasting.model_selection import ExpandingWindowSplitter, SingleWindowSplitter, SlidingWindowSplitter

    kind, p = spec[0], dict(spec[1])
    if "fh" in p and isinstance(p["fh"], list):
        # the splitter's horizon in one of the accepted containers (chosen from the horizon itself, so a spec always builds the same object)
        import pandas as pd
        from sktime.forecasting.base import ForecastingHorizon
        v = p["fh"]
        k_ = (sum(v) + len(v) + int(p.get("window_length") or p.get("initial_window") or 0)) % 5
        spaced = len(v) >= 2 and len(set(np.diff(v).tolist())) == 1
        # (the last slot: a range index when the steps are equally spaced - also with a step above 1 -, an array otherwise)
        p["fh"] = [np.array(v), list(v), pd.Index(v, dtype="int64"), ForecastingHorizon(list(v)), pd.RangeIndex(v[0], v[-1] + 1, v[1] - v[0]) if spaced else np.array(v)][k_]
    if kind == "sliding":
        return SlidingWindowSplitter(**p)
    if kind == "expanding":
        return ExpandingWindowSplitter(**p)
    if kind == "single":
        return SingleWindowSplitter(**p)
    if kind == "cutoff":
        from sktime.forecasting.model_selection import CutoffSplitter
        cs = p.pop("cutoffs")
        import pandas as pd
        return CutoffSplitter(np.array(cs) if sum(cs) % 2 else pd.Index(cs, dtype="int64"), **p)
    raise ValueError(kind)


def build_regressor(name):
    from sklearn.linear_model import LinearRegression, Ridge
    from sklearn.neighbors import KNeighborsRegressor
    from sklearn.tree import DecisionTreeRegressor

    from vmon.spies import Squeeze1

    if name == "lin":
        return Squeeze1(LinearRegression())
    if name == "ridge":
        return Squeeze1(Ridge(alpha=0.5))
    if name == "tree":
        return Squeeze1(DecisionTreeRegressor(max_depth=3, random_state=0))
    if name == "knn":
        return Squeeze1(KNeighborsRegressor(n_neighbors=2))
    if name == "rawlin":
        return LinearRegression()
    if name == "rawridge":
        return Ridge(alpha=0.5)
    raise ValueError(name)


def build_metric(name):
    import sktime.performance_metrics.forecasting as M

    if name is None:
        return None
    if name == "smape":
        return M.MeanAbsolutePercentageError()
    if name == "mape":
        return M.MeanAbsolutePercentageError(symmetric=False)
    if name == "mse":
        return M.MeanSquaredError()
    if name == "rmse":
        return M.MeanSquaredError(square_root=True)
    if name == "mae":
        return M.MeanAbsoluteError()
    if name == "mdae":
        return M.MedianAbsoluteError()
    if name == "asym":
        return M.MeanAsymmetricError(asymmetric_threshold=0.0, left_error_function="squared", right_error_function="absolute")
    if name == "asym_thr":
        return M.MeanAsymmetricError(asymmetric_threshold=1.5, left_error_function="absolute", right_error_function="squared")
    if name == "asym_fn":
        return M.make_forecasting_scorer(_asym_fn, name="asym_fn", greater_is_better=False)
    if name == "neg_mae":
        return M.make_forecasting_scorer(_neg_mae, name="neg_mae", greater_is_better=True)
    if name == "neg_asym":
        return M.make_forecasting_scorer(_neg_asym, name="neg_asym", greater_is_better=True)
    if name == "rmspe":
        return M.MeanSquaredPercentageError(symmetric=False, square_root=True)
    if name == "mdspe":
        return M.MedianSquaredPercentageError(symmetric=False)
    if name == "rmdspe_sym":
        return M.MedianSquaredPercentageError(symmetric=True, square_root=True)
    raise ValueError(name)


GREATER_IS_BETTER = {"neg_mae", "neg_asym"}        # the direction each metric of build_metric is declared with


def metric_reference(name):
    """the textbook value of the metric `build_metric(name)` as a plain function of (y_true, y_pred), written here from the definition
    (None for user-made scorers, whose function is the definition)"""
    A = lambda v: np.asarray(v, dtype=float)  # noqa
    eps = np.finfo(np.float64).eps
    pe = lambda t, p: np.abs(A(t) - A(p)) / np.maximum(np.abs(A(t)), eps)  # noqa
    spe = lambda t, p: 2.0 * np.abs(A(t) - A(p)) / np.maximum(np.abs(A(t)) + np.abs(A(p)), eps)  # noqa
    return {None: lambda t, p: float(np.mean(spe(t, p))), "smape": lambda t, p: float(np.mean(spe(t, p))), "mape": lambda t, p: float(np.mean(pe(t, p))),
            "mse": lambda t, p: float(np.mean((A(t) - A(p)) ** 2)), "rmse": lambda t, p: float(np.sqrt(np.mean((A(t) - A(p)) ** 2))),
            "mae": lambda t, p: float(np.mean(np.abs(A(t) - A(p)))), "mdae": lambda t, p: float(np.median(np.abs(A(t) - A(p)))),
            "rmspe": lambda t, p: float(np.sqrt(np.mean(pe(t, p) ** 2))), "mdspe": lambda t, p: float(np.median(pe(t, p) ** 2)),
            "rmdspe_sym": lambda t, p: float(np.sqrt(np.median(spe(t, p) ** 2))),
            # errors below the threshold get the left function, the others the right one (written out)
            "asym": lambda t, p: float(np.mean([(e * e) if e < 0.0 else abs(e) for e in (A(t) - A(p)).tolist()])),
            "asym_thr": lambda t, p: float(np.mean([abs(e) if e < 1.5 else (e * e) for e in (A(t) - A(p)).tolist()]))}.get(name)


def _asym_fn(y_true, y_pred):
    """deliberately asymmetric in its arguments: a swap is visible whatever the data"""
    return float(np.mean(np.abs(2.0 * np.asarray(y_true, dtype=float) - np.asarray(y_pred, dtype=float))))


def _neg_mae(y_true, y_pred):
    return -float(np.mean(np.abs(np.asarray(y_true, dtype=float) - np.asarray(y_pred, dtype=float))))


def _neg_asym(y_true, y_pred):
    return -_asym_fn(y_true, y_pred)


def build_transformer(spec):
    kind, p = spec[0], dict(spec[1])
    if kind == "detrend":
        from sktime.forecasting.trend import PolynomialTrendForecaster
        from sktime.transformations.series.detrend import Detrender
        if p.get("default"):
            return Detrender()            # no forecaster given: the documented default is a linear trend
        return Detrender(PolynomialTrendForecaster(degree=p.get("degree", 1)))
    if kind == "deseason":
        from sktime.transformations.series.detrend import Deseasonalizer
        return Deseasonalizer(sp=p.get("sp", 4), model=p.get("model", "additive"))
    if kind == "cdeseason":
        from sktime.transformations.series.detrend import ConditionalDeseasonalizer
        return ConditionalDeseasonalizer(sp=p.get("sp", 4), model=p.get("model", "additive"))
    if kind == "boxcox":
        from sktime.transformations.series.boxcox import BoxCoxTransformer
        if isinstance(p.get("bounds"), list):
            p["bounds"] = tuple(p["bounds"])
        return BoxCoxTransformer(**p)
    if kind == "log":
        from sktime.transformations.series.boxcox import LogTransformer
        return LogTransformer()
    if kind == "scaler":
        from sklearn.preprocessing import MinMaxScaler, StandardScaler
        from sktime.transformations.series.adapt import TabularToSeriesAdaptor
        return TabularToSeriesAdaptor(StandardScaler() if p.get("which", "standard") == "standard" else MinMaxScaler())
    if kind == "optional":
        from sktime.transformations.series.compose import OptionalPassthrough
        return OptionalPassthrough(build_transformer(spec[2]), passthrough=p.get("passthrough", False))
    if kind == "imputer":
        from sktime.transformations.series.impute import Imputer
        return Imputer(**p)
    if kind == "cos":
        from sktime.transformations.series.cos import CosineTransformer
        return CosineTransformer()
    if kind == "hampel":
        from sktime.transformations.series.outlier_detection import HampelFilter
        return HampelFilter(**p)
    raise ValueError(kind)


def build(spec):
    """forecaster from spec"""
    kind, p = spec[0], dict(spec[1])
    if kind == "naive":
        from sktime.forecasting.naive import NaiveForecaster
        return NaiveForecaster(**p)
    if kind == "poly":
        from sktime.forecasting.trend import PolynomialTrendForecaster
        return PolynomialTrendForecaster(**p)
    if kind == "es":
        from sktime.forecasting.exp_smoothing import ExponentialSmoothing
        return ExponentialSmoothing(**p)
    if kind == "ets":
        from sktime.forecasting.ets import AutoETS
        return AutoETS(**p)
    if kind == "theta":
        from sktime.forecasting.theta import ThetaForecaster
        return ThetaForecaster(**p)
    if kind == "reduce":
        from sktime.forecasting.compose import make_reduction
        reg = p.pop("reg", "lin")
        if reg == "tsf":
            from sktime.regression.interval_based import TimeSeriesForestRegressor
            r = TimeSeriesForestRegressor(n_estimators=3, random_state=0)
        else:
            r = build_regressor(reg)
        return make_reduction(r, strategy=p.get("strategy", "recursive"), window_length=p.get("window_length", 3))
    if kind == "ensemble":
        from sktime.forecasting.compose import EnsembleForecaster
        return EnsembleForecaster([("m%d" % i, build(s)) for i, s in enumerate(spec[2])], **p)
    if kind == "pipeline":
        from sktime.forecasting.compose import TransformedTargetForecaster
        steps = [("t%d" % i, build_transformer(t)) for i, t in enumerate(spec[2])] + [("forecaster", build(spec[3]))]
        return TransformedTargetForecaster(steps)
    if kind == "multiplex":
        from sktime.forecasting.compose import MultiplexForecaster
        members = [("m%d" % i, build(s)) for i, s in enumerate(spec[2])]
        return MultiplexForecaster(members, selected_forecaster="m%d" % p.get("selected", 0))
    if kind == "stack":
        from sktime.forecasting.compose import StackingForecaster
        return StackingForecaster([("m%d" % i, build(s)) for i, s in enumerate(spec[2])], final_regressor=build_regressor("raw" + p.get("reg", "lin")))
    if kind == "grid":
        from sktime.forecasting.model_selection import ForecastingGridSearchCV
        return ForecastingGridSearchCV(build(spec[2]), cv=build_cv(p["cv"]), param_grid=p["grid"], scoring=build_metric(p.get("scoring")),
                                       refit=p.get("refit", True), strategy=p.get("strategy", "refit"))
    if kind == "rand":
        from sktime.forecasting.model_selection import ForecastingRandomizedSearchCV
        return ForecastingRandomizedSearchCV(build(spec[2]), cv=build_cv(p["cv"]), param_distributions=p["grid"], n_iter=p.get("n_iter", 3),
                                             scoring=build_metric(p.get("scoring")), refit=p.get("refit", True), random_state=p.get("random_state", 0))
    if kind == "online":
        from sktime.forecasting.online_learning import OnlineEnsembleForecaster
        return OnlineEnsembleForecaster([("m%d" % i, build(s)) for i, s in enumerate(spec[2])])
    raise ValueError(kind)


# ---------------------------------------------------------------------------------
# properties of specs needed by workload generators
# ---------------------------------------------------------------------------------
def children(spec):
    kind = spec[0]
    if kind in ("ensemble", "multiplex", "stack", "online"):
        return list(spec[2])
    if kind == "pipeline":
        return [spec[3]]
    if kind in ("grid", "rand"):
        return [spec[2]]
    return []


def requires_fh_in_fit(spec):
    kind = spec[0]
    if kind == "reduce":
        return spec[1].get("strategy", "recursive") != "recursive"
    if kind == "stack":
        return True
    if kind == "multiplex":
        return requires_fh_in_fit(spec[2][spec[1].get("selected", 0)])
    return any(requires_fh_in_fit(c) for c in children(spec))


def horizon_separable(spec):
    """the forecast for step h does not depend on which other steps are requested (false for stacking: the meta-learner is
    trained on the horizon's hold-out; for multioutput / dirrec reductions: one joint or chained model over the horizon)"""
    kind = spec[0]
    if kind == "stack":
        return False
    if kind == "reduce":
        return spec[1].get("strategy", "recursive") in ("recursive", "direct")
    return all(horizon_separable(c) for c in children(spec))


def needs_positive(spec):
    kind = spec[0]
    if kind == "pipeline":
        for t in spec[2]:
            tt = t[2] if t[0] == "optional" else t
            if tt[0] in ("boxcox", "log") or (tt[0] in ("deseason", "cdeseason") and tt[1].get("model") == "multiplicative"):
                return True
    if kind == "theta":
        return True
    if kind in ("es", "ets"):
        p = spec[1]
        if "mul" in (p.get("trend"), p.get("seasonal"), p.get("error")):
            return True
    return any(needs_positive(c) for c in children(spec))


def min_length(spec):
    """a training length that is certainly enough for the spec"""
    kind, p = spec[0], spec[1]
    m = 4
    if kind == "naive":
        m = max(m, (p.get("window_length") or 1) + 1, (p.get("sp") or 1) + 1)
    if kind == "poly":
        m = max(m, p.get("degree", 1) + 2)
    if kind in ("es", "ets", "theta"):
        m = max(m, 2 * (p.get("sp") or 1) + 10)
    if kind == "reduce":
        m = max(m, p.get("window_length", 3) + 8)
    if kind == "pipeline":
        for t in spec[2]:
            tt = t[2] if t[0] == "optional" else t
            if tt[0] in ("deseason", "cdeseason"):
                m = max(m, 2 * tt[1].get("sp", 4) + 2)
    if kind in ("grid", "rand"):
        cv = p["cv"][1]
        m = max(m, (cv.get("window_length") or cv.get("initial_window") or 5) + 8)
    if kind == "stack":
        m = max(m, 12)
    for c in children(spec):
        m = max(m, min_length(c))
    return m


def refits_on_update(spec):
    """True if update(update_params=True) is documented/implemented as a full refit on all remembered data."""
    kind = spec[0]
    if kind in ("naive", "poly", "es", "ets", "reduce"):
        return True
    if kind == "ensemble":
        return all(refits_on_update(c) for c in spec[2])
    if kind == "multiplex":
        return refits_on_update(spec[2][spec[1].get("selected", 0)])
    return False


def describe(spec):
    kind = spec[0]
    ch = children(spec)
    s = kind
    if kind == "naive":
        s += ":%s" % spec[1].get("strategy", "last")
    if kind == "reduce":
        s += ":%s" % spec[1].get("strategy", "recursive")
    if ch:
        s += "(" + ",".join(describe(c) for c in ch) + ")"
    return s


# a small catalogue of fast leaf forecasters
LEAVES = [
    ["naive", {"strategy": "last"}],
    ["naive", {"strategy": "mean", "window_length": 3}],
    ["naive", {"strategy": "drift"}],
    ["naive", {"strategy": "last", "sp": 3}],
    ["naive", {"strategy": "mean", "sp": 2, "window_length": 5}],
    ["poly", {"degree": 1}],
    ["poly", {"degree": 2}],
    ["poly", {"degree": 0}],
    ["reduce", {"strategy": "recursive", "window_length": 3, "reg": "lin"}],
    ["reduce", {"strategy": "direct", "window_length": 2, "reg": "lin"}],
    ["reduce", {"strategy": "multioutput", "window_length": 3, "reg": "rawlin"}],
    ["reduce", {"strategy": "dirrec", "window_length": 2, "reg": "ridge"}],
    # further option values of the same forecasters
    ["naive", {"strategy": "mean"}],
    ["naive", {"strategy": "drift", "window_length": 4}],
    ["naive", {"strategy": "mean", "sp": 3}],
    ["poly", {"degree": 1, "with_intercept": False}],
    ["poly", {"degree": 3}],
]
SLOW_LEAVES = [
    ["es", {}],
    ["es", {"trend": "add"}],
    ["theta", {"sp": 1}],
    ["ets", {"auto": False}],
    ["es", {"trend": "add", "damped_trend": True}],
    ["es", {"seasonal": "add", "sp": 4}],
    ["es", {"trend": "add", "initialization_method": "heuristic"}],
    ["theta", {"sp": 4}],
    ["theta", {"sp": 4, "deseasonalize": False}],
    ["ets", {"auto": False, "trend": "add"}],
    ["ets", {"auto": False, "error": "mul"}],
]
TRANSFORMERS = [
    ["detrend", {"degree": 1}],
    ["deseason", {"sp": 3, "model": "additive"}],
    ["scaler", {"which": "standard"}],
    ["scaler", {"which": "minmax"}],
    ["log", {}],
    ["boxcox", {"bounds": [0, 2]}],   # bounded lambda: the unbounded MLE degenerates numerically on short, flat series
    ["deseason", {"sp": 4, "model": "multiplicative"}],
    ["optional", {"passthrough": False}, ["detrend", {"degree": 1}]],
    ["optional", {"passthrough": True}, ["log", {}]],
    ["cdeseason", {"sp": 3, "model": "additive"}],
]


def _t_needs_positive(t):
    tt = t[2] if t[0] == "optional" else t
    return tt[0] in ("boxcox", "log") or (tt[0] in ("deseason", "cdeseason") and tt[1].get("model") == "multiplicative")


def _t_keeps_positive(t):
    if t[0] == "optional":
        return t[1].get("passthrough", False) or _t_keeps_positive(t[2])
    return t[0] in ("deseason", "cdeseason") and t[1].get("model") == "multiplicative"


def random_spec(rng, depth=2, allow_slow=False, allow_fh_required=True, positive=True):
    """random composite up to `depth` levels; `positive` says whether the data reaching this forecaster are positive
    (transformers / forecasters that need positive data are only generated where that is guaranteed)"""
    leaves = LEAVES + (SLOW_LEAVES if allow_slow else [])
    if not allow_fh_required:
        leaves = [s for s in leaves if not requires_fh_in_fit(s)]
    if not positive:
        leaves = [s for s in leaves if not needs_positive(s)]
    if depth <= 0 or rng.random() < 0.3:
        return leaves[int(rng.integers(0, len(leaves)))]
    kind = ["ensemble", "pipeline", "multiplex", "stack" if allow_fh_required else "ensemble"][int(rng.integers(0, 4))]
    sub = lambda pos=positive: random_spec(rng, depth - 1, allow_slow, allow_fh_required, pos)  # noqa
    if kind == "ensemble":
        p = {"aggfunc": ["mean", "median", "min", "max"][int(rng.integers(0, 4))]}
        members = [sub() for _ in range(int(rng.integers(2, 4)))]
        r_ = rng.random()
        if r_ < 0.12:
            p["n_jobs"] = 2        # joblib's default backend: members are fitted / updated in worker processes
        elif r_ < 0.24:
            p["n_jobs"] = 1        # explicitly sequential: joblib runs the member fits in this process
        return ["ensemble", p, members]
    if kind == "pipeline":
        k = int(rng.integers(0, 3))          # also the pipeline that consists of its forecaster only
        ts, pos = [], positive
        for j in range(k):
            pool = [t for t in TRANSFORMERS if pos or not _t_needs_positive(t)]
            t = pool[int(rng.integers(0, len(pool)))]
            ts.append(t)
            pos = pos and _t_keeps_positive(t)
        return ["pipeline", {}, ts, sub(pos)]
    if kind == "multiplex":
        m = [sub() for _ in range(int(rng.integers(2, 4)))]
        return ["multiplex", {"selected": int(rng.integers(0, len(m)))}, m]
    # ridge meta-learner: the hold-out has len(fh) rows for 2 features + intercept, so an unregularised least-squares fit is
    # ill-conditioned whenever the member forecasts are nearly collinear (coefficients ~1e13, overflow after exp / inverse Box-Cox)
    return ["stack", {"reg": "ridge"}, [leaves[int(rng.integers(0, len(leaves)))] for _ in range(2)]]


def make_series(rng, n, positive=True, off=0, kind="seasonal", index="range", integer=False):
    import pandas as pd

    t = np.arange(n)
    if kind == "seasonal":
        v = 50 + 0.7 * t + 5 * np.sin(2 * np.pi * t / 4) + 3 * np.cos(2 * np.pi * t / 3) + rng.normal(0, 1.0, size=n)
    elif kind == "walk":
        v = 100 + np.cumsum(rng.normal(0, 1.5, size=n))
    else:
        v = rng.normal(30, 5, size=n)
    if not positive:
        v = v - float(np.mean(v))
    idx = pd.RangeIndex(off, off + n) if index == "range" else pd.Index(np.arange(off, off + n))
    if integer:
        v = np.round(v).astype(np.int64)      # integer-typed series (counts)
    return pd.Series(v, index=idx)
