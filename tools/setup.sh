#!/bin/bash
# Offline setup: install icontract/deal beside the repository's interpreter (target dir) and check imports.
cd "$(dirname "$0")/.."
mkdir -p .deps .cache evidence replay
if [ ! -d .deps/icontract ]; then
  PIP_NO_INDEX=1 /venv/bin/pip install --quiet --no-index --find-links /opt/veriftools/wheels --target .deps icontract deal || exit 1
fi
./check C00 --tier quick >/dev/null || { echo "smoke check failed"; exit 1; }
echo setup-ok
