claim("C01", "reference-model monitor over exhaustive small scopes + random large configurations",
      "Every split yielded by the real splitters (and temporal_train_test_split) is compared with an independent integer-arithmetic reference of the documented tiling, exhaustively for all n/window/step/fh inside a small scope and on seeded random large configurations; held means no disagreement on those executions.",
      "reference model in lib/vmon/props/c01.py; compatibility layer; only positions/integer indices, out-of-sample horizons")
claim("C02", "reference-model monitor (int set arithmetic) + icontract class invariant and conversion postconditions on the real ForecastingHorizon",
      "All conversion laws are compared with Python int arithmetic for every subset of a small step range x cutoffs x container types (exhaustive in that scope), random large sets, the cache, and every rejection class; the class invariant and postconditions also run inside every other forecasting workload.",
      "int arithmetic reference; compatibility layer aliases pd.Int64Index to pd.Index so non-integer pd.Index inputs are not judged")
