claim("C01", "reference-model monitor over exhaustive small scopes + random large configurations",
      "Every split yielded by the real splitters (and temporal_train_test_split) is compared with an independent integer-arithmetic reference of the documented tiling, exhaustively for all n/window/step/fh inside a small scope and on seeded random large configurations; held means no disagreement on those executions.",
      "reference model in lib/vmon/props/c01.py; compatibility layer; only positions/integer indices, out-of-sample horizons")
