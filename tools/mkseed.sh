#!/bin/bash
# tools/mkseed.sh <name>  -> prepares /tmp/seed_<name>/{wt (git worktree of /repo HEAD), compat (third-party shim), run.sh, out/}
set -e
N=$1
D=/tmp/seed_$N
rm -rf $D; mkdir -p $D/compat/site $D/out
git -C /repo worktree add --detach $D/wt HEAD >/dev/null 2>&1
cp /verif/lib/vcompat.py $D/compat/
cp /verif/lib/site/sitecustomize.py $D/compat/site/
cp /verif/lib/vmon/spies.py $D/compat/_unused_do_not_read.py 2>/dev/null && rm $D/compat/_unused_do_not_read.py
cat > $D/run.sh <<EOS
#!/bin/bash
# runs python with this worktree's sktime (0.6.0) importable on this interpreter (third-party compatibility shim)
export PYTHONPATH=$D/compat/site:$D/compat:$D/wt
export SKTIME_VERIF_SHIM=1 PYTHONDONTWRITEBYTECODE=1 PYTHONWARNINGS=ignore
exec /venv/bin/python "\$@"
EOS
chmod +x $D/run.sh
echo $D
