#!/usr/bin/env python3
"""tools/seedcheck.py <seedname> <PID> [--keep]
Confirms a sub-agent's seeded change independently (fresh scratch worktree: demo passes without / fails with the patch,
pinned suite still has all baseline tests passing), runs the property's quick (and optionally thorough) check against /repo
with the patch applied, undoes it, and files the change under /verif/seeded/<seedname>/."""
import json, os, shutil, subprocess, sys, time
HERE = os.path.dirname(os.path.dirname(os.path.abspath(__file__)))
name, pid = sys.argv[1], sys.argv[2].upper()
src = "/tmp/seed_%s/out" % name
patch = os.path.join(src, "patch.diff")
demo = os.path.join(src, "demo.py")
assert os.path.exists(patch) and os.path.exists(demo), "missing deliverables"
wt = "/tmp/sv_%s" % name
subprocess.run(["git", "-C", "/repo", "worktree", "remove", "--force", wt], capture_output=True)
shutil.rmtree(wt, ignore_errors=True)
subprocess.run(["git", "-C", "/repo", "worktree", "add", "--detach", wt, "HEAD"], check=True, capture_output=True)
env = dict(os.environ, PYTHONPATH="%s/lib/site:%s/lib:%s" % (HERE, HERE, wt), SKTIME_VERIF_SHIM="1", PYTHONDONTWRITEBYTECODE="1", PYTHONWARNINGS="ignore")
demo_txt = open(demo).read().replace("/tmp/seed_%s/wt" % name, wt)
open(os.path.join(wt, "_demo.py"), "w").write(demo_txt)
def run_demo():
    r = subprocess.run(["/venv/bin/python", os.path.join(wt, "_demo.py")], env=env, capture_output=True, text=True, timeout=1800)
    return r.returncode, (r.stdout + r.stderr)[-600:]
out = {"seed": name, "property": pid}
rc0, o0 = run_demo()
out["demo_without_patch"] = rc0
ap = subprocess.run(["git", "-C", wt, "apply", patch], capture_output=True, text=True)
if ap.returncode:
    print("PATCH DOES NOT APPLY to /repo HEAD:", ap.stderr); sys.exit(2)
rc1, o1 = run_demo()
out["demo_with_patch"] = rc1
print("demo without patch: exit %d; with patch: exit %d" % (rc0, rc1))
if rc1 != 0: print(o1[-400:])
# pinned suite with the patch
junit = "/tmp/sv_%s.xml" % name
os.unlink(os.path.join(wt, "_demo.py"))   # the repository's pytest configuration would collect it
pt = subprocess.run(["/venv/bin/python", "-m", "pytest", "-q", "-p", "no:cacheprovider", "--timeout=900", "--continue-on-collection-errors", "--junitxml=" + junit],
               cwd=wt, capture_output=True, text=True, env={k: v for k, v in os.environ.items() if k not in ("PYTHONPATH", "SKTIME_VERIF_SHIM")})
import ast, xml.etree.ElementTree as ET
b = json.load(open('/root/.vp/BASELINE.json')); stable = b['stable_pass']
stable = ast.literal_eval(stable) if isinstance(stable, str) else stable
passed = set('%s::%s' % (tc.get('classname'), tc.get('name')) for tc in ET.parse(junit).getroot().iter('testcase') if not any(ch.tag in ('failure', 'error', 'skipped') for ch in tc))
missing = [t for t in stable if t not in passed]
out["baseline_missing_with_patch"] = len(missing)
print("pinned suite with patch: %d/%d baseline tests pass" % (len(stable) - len(missing), len(stable)))
if missing: print(pt.stdout[-1500:], pt.stderr[-500:])
os.unlink(junit)
valid = rc0 == 0 and rc1 != 0 and not missing
out["valid"] = valid
if "--scratch" in sys.argv:
    # preliminary run while /repo must stay untouched (a sweep is reading it): the check is pointed at the patched scratch worktree;
    # nothing is filed - the filing run is the default mode (patch applied to /repo itself)
    e = dict(os.environ, VMON_REPO=wt, VMON_EVIDENCE_DIR="/tmp/sv_ev_%s" % name, VMON_REPLAY_DIR="/tmp/sv_rp_%s" % name)
    r = subprocess.run([os.path.join(HERE, "check"), pid, "--tier", "quick"], env=e, capture_output=True, text=True, timeout=7200)
    keys = sorted(set(l.split("key=")[1].split(" ::")[0] for l in r.stdout.splitlines() if l.startswith("VIOLATION") and "key=" in l))
    out["check_quick"] = {"exit": r.returncode, "violation_keys": keys, "scratch": True}
    shutil.rmtree("/tmp/sv_ev_%s" % name, ignore_errors=True); shutil.rmtree("/tmp/sv_rp_%s" % name, ignore_errors=True)
    subprocess.run(["git", "-C", "/repo", "worktree", "remove", "--force", wt], capture_output=True)
    shutil.rmtree(wt, ignore_errors=True)
    print(json.dumps(out)); sys.exit(0)
subprocess.run(["git", "-C", "/repo", "worktree", "remove", "--force", wt], capture_output=True)
shutil.rmtree(wt, ignore_errors=True)
# ---- run our checks against /repo with the patch applied -----------------------------------------------------
st = subprocess.run(["git", "-C", "/repo", "status", "--porcelain"], capture_output=True, text=True).stdout.strip()
assert not st, "/repo working tree not clean: " + st
subprocess.run(["git", "-C", "/repo", "apply", patch], check=True)
try:
    tiers = ["quick"] + (["thorough"] if "--thorough" in sys.argv else [])
    for tier in tiers:
        t0 = time.time()
        e = dict(os.environ, VMON_EVIDENCE_DIR="/tmp/sv_ev_%s" % name, VMON_REPLAY_DIR="/tmp/sv_rp_%s" % name)
        r = subprocess.run([os.path.join(HERE, "check"), pid, "--tier", tier], env=e, capture_output=True, text=True, timeout=7200)
        keys = sorted(set(l.split("key=")[1].split(" ::")[0] for l in r.stdout.splitlines() if l.startswith("VIOLATION") and "key=" in l))
        out["check_%s" % tier] = {"exit": r.returncode, "violation_keys": keys, "wall_s": round(time.time() - t0, 1)}
        print("check %s %s: exit %d keys=%s" % (pid, tier, r.returncode, keys[:6]))
        if r.returncode == 1:
            break
finally:
    subprocess.run(["git", "-C", "/repo", "checkout", "--", "."], check=True)
    shutil.rmtree("/tmp/sv_ev_%s" % name, ignore_errors=True); shutil.rmtree("/tmp/sv_rp_%s" % name, ignore_errors=True)
    subprocess.run("find /repo -name __pycache__ -type d -prune -exec rm -rf {} + 2>/dev/null", shell=True)
if valid:
    dst = os.path.join(HERE, "seeded", name)
    os.makedirs(dst, exist_ok=True)
    shutil.copy(patch, os.path.join(dst, "patch.diff")); shutil.copy(demo, os.path.join(dst, "demo.py"))
    if os.path.exists(os.path.join(src, "notes.md")): shutil.copy(os.path.join(src, "notes.md"), os.path.join(dst, "notes.md"))
    meta = {"breaks_property": pid, "needs_to_manifest": "see notes.md", "confirmed": {"demo_exit_without_patch": rc0, "demo_exit_with_patch": rc1,
            "pinned_suite_baseline_tests_missing_with_patch": len(missing)}, "our_checks": {k: v for k, v in out.items() if k.startswith("check_")},
            "ran": ["fresh worktree of /repo HEAD: demo.py without and with patch.diff", "pinned pytest suite with the patch", "./check %s against /repo with the patch applied (git apply / git checkout -- .)" % pid]}
    json.dump(meta, open(os.path.join(dst, "meta.json"), "w"), indent=1)
print(json.dumps(out))
