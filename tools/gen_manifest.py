#!/usr/bin/env python3
"""Regenerates /verif/MANIFEST.json from the table below (run after adding a property module)."""
import json, os, sys
HERE = os.path.dirname(os.path.dirname(os.path.abspath(__file__)))
PROPS = [json.loads(l) for l in open(os.path.join(HERE, "properties.jsonl"))]

# pid -> (technique, level category, level text, level note, design ref)
CLAIMS = {}
def claim(pid, technique, text, note, category="exploration"):
    CLAIMS[pid] = dict(technique=technique, category=category, text=text, note=note)

exec(open(os.path.join(HERE, "tools", "claims.py")).read())

NOT_APPLICABLE = {}
checks = []
for p in PROPS:
    pid = p["id"]
    mod = os.path.join(HERE, "lib", "vmon", "props", pid.lower() + ".py")
    if pid in CLAIMS and os.path.exists(mod):
        c = CLAIMS[pid]
        checks.append({
            "property_id": pid,
            "quick_cmd": "./check %s --tier quick" % pid,
            "thorough_cmd": "./check %s --tier thorough" % pid,
            "evidence_file": "evidence/%s.json" % pid,
            "replay_cmd_template": "./check %s --replay {path}" % pid,
            "engine": "vmon",
            "level_claimed": {"category": c["category"], "text": c["text"], "design_ref": "DESIGN.md section 2, %s" % pid},
            "level_note": c["note"],
            "technique": c["technique"],
        })
    else:
        NOT_APPLICABLE[pid] = "check not built yet (planned, see DESIGN.md section 2); not claimed until its monitor runs clean on the unchanged tree"
man = {
    "version": 1,
    "setup_cmd": "bash tools/setup.sh",
    "hooks": {
        "guard": "SKTIME_VERIF",
        "enable": "no source hooks are needed: all observation points are reached from outside (spy estimators passed through the public API, wrappers installed at import time by the harness, sys.monitoring reach counters); ./check exports SKTIME_VERIF=1 for completeness",
        "baseline_off_cmd": "cd /repo && /venv/bin/python -m pytest -ra -q -p no:cacheprovider --timeout=900 --continue-on-collection-errors",
        "source_commits": [],
        "add_only": True,
    },
    "engines": [{"name": "vmon", "path": "lib/vmon", "serves_properties": [c["property_id"] for c in checks],
                 "kind_free_text": "runtime monitoring of the real sktime code in /repo: reference-model, history (spy estimators), metamorphic and contract monitors over seeded/exhaustive workloads with fault injection; three-valued verdicts"}],
    "checks": checks,
    "notes": "All checks run /repo's working tree under /venv/bin/python with the third-party compatibility layer lib/vcompat.py (DESIGN.md 0.2). Exit 0 held, 1 violation (VIOLATION line), 2 inconclusive (INCONCLUSIVE line). Known findings: known_findings.json.",
    "not_applicable": [{"property_id": k, "reason": v} for k, v in sorted(NOT_APPLICABLE.items())],
}
json.dump(man, open(os.path.join(HERE, "MANIFEST.json"), "w"), indent=1)
print("claimed:", [c["property_id"] for c in checks], "not claimed:", sorted(NOT_APPLICABLE))
