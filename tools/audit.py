#!/usr/bin/env python3
"""Sensitivity audit (development tooling, not part of MANIFEST).

  tools/audit.py C01 [mutant-name ...] [--tier quick] [--keep]

For every mutant in mutants/CXX.json ({name, file, old, new} exact-substring source edits, or {name, patch}
pointing to a unified diff) a scratch copy of /repo is made under /var/tmp, the edit applied, the check run
against it (VMON_REPO) and a VIOLATION (exit 1) required.  Scratch copies are removed afterwards."""
import json, os, shutil, subprocess, sys, tempfile, concurrent.futures as cf
HERE = os.path.dirname(os.path.dirname(os.path.abspath(__file__)))

def run_mutant(pid, m, tier):
    d = tempfile.mkdtemp(prefix="vmon-audit-", dir="/var/tmp")
    try:
        subprocess.run(["rsync", "-a", "--exclude", ".git", "/repo/", d + "/"], check=True)
        if "patch" in m:
            r = subprocess.run(["patch", "-p1", "-s", "-i", os.path.join(HERE, m["patch"])], cwd=d, capture_output=True, text=True)
            if r.returncode:
                return m["name"], "PATCH-FAILED", r.stdout + r.stderr
        else:
            p = os.path.join(d, m["file"])
            s = open(p).read()
            if s.count(m["old"]) != m.get("count", 1):
                return m["name"], "EDIT-NOT-UNIQUE(%d)" % s.count(m["old"]), ""
            open(p, "w").write(s.replace(m["old"], m["new"]))
        env = dict(os.environ, VMON_REPO=d, VMON_EVIDENCE_DIR=os.path.join(d, ".ev"), VMON_REPLAY_DIR=os.path.join(d, ".rp"))
        r = subprocess.run([os.path.join(HERE, "check"), pid, "--tier", tier], env=env, capture_output=True, text=True, timeout=3600)
        keys = sorted(set(l.split("key=")[1].split(" ::")[0] for l in r.stdout.splitlines() if l.startswith("VIOLATION") and "key=" in l))
        status = {0: "MISSED", 1: "caught", 2: "INCONCLUSIVE"}.get(r.returncode, "exit%d" % r.returncode)
        tail = "" if r.returncode == 1 else r.stdout[-600:] + r.stderr[-300:]
        return m["name"], status, " ".join(keys)[:300] + tail
    finally:
        shutil.rmtree(d, ignore_errors=True)

def main():
    args = [a for a in sys.argv[1:] if not a.startswith("--")]
    tier = "thorough" if "--thorough" in sys.argv else "quick"
    pid = args[0].upper()
    muts = json.load(open(os.path.join(HERE, "mutants", pid + ".json")))
    if args[1:]:
        muts = [m for m in muts if m["name"] in args[1:]]
    workers = int(os.environ.get("AUDIT_WORKERS", "4"))
    bad = 0
    with cf.ThreadPoolExecutor(workers) as ex:
        for name, status, info in ex.map(lambda m: run_mutant(pid, m, tier), muts):
            print("%-10s %-40s %s" % (status, name, info))
            bad += status != "caught"
    print("audit %s: %d mutants, %d not caught" % (pid, len(muts), bad))
    return 1 if bad else 0
sys.exit(main())
