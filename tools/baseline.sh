#!/bin/bash
# Runs the repository's pinned test suite with hooks off and compares with BASELINE.json's stable_pass list.
OUT=/var/tmp/vmon-baseline-$$.xml
cd /repo && env -u SKTIME_VERIF -u SKTIME_VERIF_SHIM -u PYTHONPATH /venv/bin/python -m pytest -ra -q -p no:cacheprovider --timeout=900 --continue-on-collection-errors --junitxml=$OUT >/var/tmp/vmon-baseline-$$.log 2>&1
python3 - "$OUT" <<'PY'
import json, sys, xml.etree.ElementTree as ET, ast
b = json.load(open('/root/.vp/BASELINE.json'))
stable = b['stable_pass']
if isinstance(stable, str): stable = ast.literal_eval(stable)
passed = set()
for tc in ET.parse(sys.argv[1]).getroot().iter('testcase'):
    if not any(ch.tag in ('failure', 'error', 'skipped') for ch in tc):
        passed.add('%s::%s' % (tc.get('classname'), tc.get('name')))
missing = [t for t in stable if t not in passed]
print('baseline stable tests: %d, passing now: %d, missing: %d' % (len(stable), len(stable) - len(missing), len(missing)))
for m in missing[:10]: print('  MISSING', m)
sys.exit(1 if missing else 0)
PY
rc=$?
rm -f $OUT /var/tmp/vmon-baseline-$$.log
find /repo -name __pycache__ -type d -prune -exec rm -rf {} + 2>/dev/null
exit $rc
