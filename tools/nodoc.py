import ast, sys
for p in sys.argv[1:]:
    print("="*30, p)
    src=open(p).read()
    tree=ast.parse(src)
    for node in ast.walk(tree):
        if isinstance(node,(ast.FunctionDef,ast.ClassDef)) and node.body and isinstance(node.body[0],ast.Expr) and isinstance(getattr(node.body[0],'value',None),ast.Constant) and isinstance(node.body[0].value.value,str):
            node.body=node.body[1:] or [ast.Pass()]
    print(ast.unparse(tree))
