#!/usr/bin/env python3
"""Write the task file for a sub-agent that seeds a property-breaking change.

usage: tools/mkprompt.py CXX <suffix> [--focus "text"]   ->  .cache/prompts/CXX<suffix>.txt

The task file contains only the property's text (statement, quantifier, anchors) and the places where
earlier seeds for the same property sit (taken from seeded/CXX*/patch.diff) - nothing about the checks."""
import glob
import json
import os
import re
import sys

HOME = os.path.dirname(os.path.dirname(os.path.abspath(__file__)))


def avoid_list(pid):
    out = []
    for d in sorted(glob.glob(os.path.join(HOME, "seeded", pid + "*"))):
        try:
            txt = open(os.path.join(d, "patch.diff")).read()
        except OSError:
            continue
        cur, ctx = None, []
        for line in txt.splitlines():
            m = re.match(r"\+\+\+ b/(.*)", line)
            if m:
                if cur:
                    out.append((cur, ctx))
                cur, ctx = m.group(1), []
            m = re.match(r"@@ .* @@ ?(.*)", line)
            if m and m.group(1).strip():
                ctx.append(m.group(1).strip())
        if cur:
            out.append((cur, ctx))
    return out


def main():
    pid, suffix = sys.argv[1], sys.argv[2]
    focus = sys.argv[sys.argv.index("--focus") + 1] if "--focus" in sys.argv else None
    name = pid + suffix
    prop = next(json.loads(l) for l in open(os.path.join(HOME, "properties.jsonl")) if json.loads(l)["id"] == pid)
    W = "/tmp/seed_%s" % name
    files = ", ".join(prop["anchors"]["files"])
    mech = "; ".join("%s (%s)" % (m["name"], m["where"]) for m in prop["anchors"].get("mechanism", []))
    av = avoid_list(pid)
    avoid = ""
    if av:
        avoid = ("\nIMPORTANT: earlier volunteers already seeded bugs for this property at these places - choose a DIFFERENT source location and a "
                 "different kind of trigger:\n" + "\n".join("  - %s (%s)" % (f, "; ".join(dict.fromkeys(c))[:160]) for f, c in av) +
                 "\nPrefer a less central code path among the relevant files, an interaction between two mechanisms, a rarely used option or container "
                 "type, or a defect that only a multi-step history / unusual option combination exposes.\n")
    if focus:
        avoid += "\nSuggested direction (you may deviate if it does not work out): %s\n" % focus
    txt = f"""You are helping to evaluate a verification effort for the Python library sktime 0.6.0 (time-series forecasting / classification toolbox). Your job: introduce ONE realistic, subtle bug into the library source that BREAKS the semantic property below, while the library still imports and its existing test-suite still passes, and provide a small demonstration.

## Workspace (use ONLY this; never touch /repo or /verif, and do not read anything under /verif)
- Your private git worktree of the library: {W}/wt  (edit files under {W}/wt/sktime/...)
- The library targets old pandas/numpy/sklearn; on this machine it only imports through a small third-party compatibility shim. ALWAYS run python through: `{W}/run.sh script.py` (or `{W}/run.sh -c "..."`). It puts {W}/wt first on sys.path. Check `import sktime; sktime.__file__` points into {W}/wt.
- Note: real scikit-learn regressors inside direct/recursive/dirrec reduction fail on numpy 2 (`arr[i] = one_element_array`); if you need a regressor there, wrap it so that single-row predict returns a scalar, or use NaiveForecaster / PolynomialTrendForecaster / statsmodels-based forecasters instead. Some estimators are not runnable on this machine at all (WEASEL, TDE, Rocket, shapelets, catch22, elastic distances, pmdarima/tbats/prophet wrappers, ComposableTimeSeriesForest, FeatureUnion): do not target those.
- NEVER use `git stash` (the stash is shared between worktrees of other people working in parallel). To test the unmodified library, save your diff first and use `git -C {W}/wt apply -R {W}/out/patch.diff`, then re-apply with `git -C {W}/wt apply {W}/out/patch.diff`.
- Write your deliverables to {W}/out/

## The property to break ({pid}: {prop['title']})
STATEMENT: {prop['statement']}
QUANTIFIED OVER: {prop['quantifier']['text']}
Relevant source files: {files}
Mechanisms that are supposed to make it hold: {mech}
{avoid}
## Requirements for the bug
1. It must be a plausible maintenance mistake (off-by-one, wrong variable, dropped copy/clone, swapped arguments, wrong branch condition, stale cache, missing propagation of an option, ...), small (a few lines), in library code (not tests).
2. It must NOT be exposed by ordinary, simplest-possible use. It should need something specific to manifest: an unusual but valid input (e.g. particular window/step/horizon combination, gapped horizon, non-zero index start, particular length relations), a multi-step sequence of operations, a particular option combination, a particular failure point, or two cooperating sites that each look fine alone. Prefer bugs whose trigger region is narrow but clearly inside the property's quantifier.
3. The library must still import, and the existing pinned test suite must still pass: run `cd {W}/wt && /venv/bin/python -m pytest -q -p no:cacheprovider --timeout=900 --continue-on-collection-errors 2>&1 | tail -5` before and after your change and confirm the number of passed tests is unchanged (many collection errors are normal on this machine; only the count of passed tests matters - it should be 108).
4. Provide a demonstration script {W}/out/demo.py that exits 0 (prints PASS) on the unmodified library and exits 1 (prints FAIL and what was observed vs expected) with your change. Run it via `{W}/run.sh {W}/out/demo.py`. Verify both outcomes yourself (with the change applied, and with it reverse-applied as described above).
5. Save the change as a unified diff: `git -C {W}/wt diff > {W}/out/patch.diff` (leave the change uncommitted in the worktree).
6. Write {W}/out/notes.md: which clause of the property is broken, what exactly is needed for the bug to manifest, what ordinary usage still works, and the commands you ran with their results.

Do not commit anything. Keep the bug to ONE logical defect. When finished, reply with a short summary (file changed, trigger, demo results before/after, test-suite pass counts).
"""
    os.makedirs(os.path.join(HOME, ".cache", "prompts"), exist_ok=True)
    p = os.path.join(HOME, ".cache", "prompts", name + ".txt")
    open(p, "w").write(txt)
    print(p)


if __name__ == "__main__":
    main()
